// Runs the real table generator (crates/char_range_gen/src/main.rs, included by path; its entry
// point is the lexgen_verif-guarded `verif_generate`) on
//   (1) every predicate that is constant on the segments of the abstract universe of
//       spec/CharRangeGen.tla (read from a file of TLC results), and
//   (2) the 20 real predicates the built-in tables are generated from,
// and prints what it returned.
//   crg <cases.ndjson> <results.ndjson>
// case: {"p": [abstract scalars satisfying the predicate], "out": [[a,b],...]}  (from TLC)

use serde_json::{json, Value};
use std::io::{BufRead, BufReader, BufWriter, Write};
use std::sync::atomic::{AtomicU32, Ordering};

// Segments of real code points for the abstract points 0..9 (4 and 5 are the surrogate gap).
const SEG: [(u32, u32); 10] = [
    (0, 0),
    (1, 0x3FF),
    (0x400, 0xD7FE),
    (0xD7FF, 0xD7FF),
    (0xD800, 0xDBFF),
    (0xDC00, 0xDFFF),
    (0xE000, 0xE000),
    (0xE001, 0xFFFF),
    (0x10000, 0x10FFFE),
    (0x10FFFF, 0x10FFFF),
];

static MASK: AtomicU32 = AtomicU32::new(0);

fn segment_of(c: u32) -> usize {
    SEG.iter().position(|(lo, hi)| *lo <= c && c <= *hi).unwrap()
}

fn masked(c: char) -> bool {
    MASK.load(Ordering::Relaxed) & (1 << segment_of(c as u32)) != 0
}

fn brute_force(f: fn(char) -> bool) -> Vec<(u32, u32)> {
    // maximal runs of scalar values satisfying f; a run that continues across the surrogate gap is
    // split at the gap (the harness accepts either form)
    let mut out: Vec<(u32, u32)> = vec![];
    let mut c: u32 = 0;
    while c <= 0x10FFFF {
        if let Some(ch) = char::from_u32(c) {
            if f(ch) {
                match out.last_mut() {
                    Some((_, e)) if *e + 1 == c => *e = c,
                    _ => out.push((c, c)),
                }
            }
        }
        c += 1;
    }
    out
}

/// U+D7FF and U+E000 are consecutive scalar values: a run across the surrogate gap is one range.
fn merge_at_gap(ranges: &[(u32, u32)]) -> Vec<(u32, u32)> {
    let mut out: Vec<(u32, u32)> = vec![];
    for (lo, hi) in ranges.iter().copied() {
        match out.last_mut() {
            Some((_, e)) if *e == 0xD7FF && lo == 0xE000 => *e = hi,
            _ => out.push((lo, hi)),
        }
    }
    out
}

fn main() {
    let args: Vec<String> = std::env::args().collect();
    let input = BufReader::new(std::fs::File::open(&args[1]).expect("open"));
    let mut out = BufWriter::new(std::fs::File::create(&args[2]).expect("create"));
    std::panic::set_hook(Box::new(|_| {}));
    for (i, line) in input.lines().enumerate() {
        let line = line.unwrap();
        if line.is_empty() {
            continue;
        }
        let t: Value = serde_json::from_str(&line).unwrap();
        let mut mask = 0u32;
        for p in t["p"].as_array().unwrap() {
            mask |= 1 << p.as_u64().unwrap();
        }
        MASK.store(mask, Ordering::Relaxed);
        let res = std::panic::catch_unwind(|| crg::verif_generate(masked));
        match res {
            Ok(ranges) => writeln!(out, "{}", json!({"i": i, "ranges": ranges})).unwrap(),
            Err(_) => writeln!(out, "{}", json!({"i": i, "panic": true})).unwrap(),
        }
    }
    for (f, name) in crg::verif_predicates().iter() {
        let res = std::panic::catch_unwind(|| crg::verif_generate(*f));
        let expected = brute_force(*f);
        match res {
            Ok(ranges) => writeln!(
                out,
                "{}",
                json!({"name": name, "n_ranges": ranges.len(), "n_expected": expected.len(),
                       "equal_split": ranges == merge_at_gap(&expected),
                       "scalar_ends": ranges.iter().all(|(a, b)| char::from_u32(*a).is_some() && char::from_u32(*b).is_some()),
                       "first_diff": ranges.iter().zip(expected.iter()).position(|(a, b)| a != b),
                       "ranges_head": &ranges[..ranges.len().min(3)],
                       "ranges_tail": &ranges[ranges.len().saturating_sub(3)..],
                       "expected_tail": &expected[expected.len().saturating_sub(3)..]})
            )
            .unwrap(),
            Err(_) => writeln!(out, "{}", json!({"name": name, "panic": true})).unwrap(),
        }
    }
    writeln!(out, "{}", json!({"done": true})).unwrap();
    out.flush().unwrap();
}

//! Shared driver for generated lexers: action logging, decision scripts, the run loop.
//! Included by every batch binary.

use serde_json::{json, Value};
use std::cell::{Cell, RefCell};
use std::rc::Rc;

pub use lexgen_util::{LexerError, LexerErrorKind, Loc};

#[derive(Debug, Clone, Copy, PartialEq, Eq)]
pub struct Tok {
    pub r: i64,
    pub q: i64,
}

#[derive(Debug, Clone, Copy, PartialEq, Eq)]
pub struct UErr {
    pub r: i64,
    pub q: i64,
}

/// Token of a `re = tok` rule.
pub const fn tk(r: i64) -> Tok {
    Tok { r, q: -1 }
}

/// User state: the number of logged action invocations so far.
#[derive(Debug, Clone, Default, PartialEq, Eq)]
pub struct St {
    pub n: i64,
}

/// A decision an action can take: `reset_match()` first or not, switch to a rule set (-1: no),
/// then continue (0), return a token (1) or return an error (2).
#[derive(Debug, Clone, Copy)]
pub struct D {
    pub reset: bool,
    pub sw: i32,
    pub ret: u8,
}

pub struct Dec {
    pub reset: bool,
    pub sw: i32,
    pub ret: u8,
    pub r: i64,
    pub q: i64,
}

impl Dec {
    pub fn tok(&self) -> Tok {
        Tok { r: self.r, q: self.q }
    }
    pub fn res(&self) -> Result<Tok, UErr> {
        if self.ret == 2 {
            Err(UErr { r: self.r, q: self.q })
        } else {
            Ok(Tok { r: self.r, q: self.q })
        }
    }
}

/// Progress counter watched by the hang watchdog of the batch runner.
pub static TICKS: std::sync::atomic::AtomicU64 = std::sync::atomic::AtomicU64::new(0);

thread_local! {
    static ACTION_BUDGET: Cell<i64> = const { Cell::new(i64::MAX) };
    static LOG: RefCell<Vec<Value>> = const { RefCell::new(Vec::new()) };
    static SCRIPT: RefCell<Vec<usize>> = const { RefCell::new(Vec::new()) };
    static USE_TEXT: Cell<bool> = const { Cell::new(false) };
    static CUR: Cell<i64> = const { Cell::new(0) };
    static TAG_LX: Cell<bool> = const { Cell::new(false) };
}

pub fn use_text() -> bool {
    USE_TEXT.with(|c| c.get())
}

fn loc(l: Loc) -> Value {
    json!([l.line, l.col, l.byte_idx])
}

fn push(mut ev: Value) {
    if TAG_LX.with(|c| c.get()) {
        ev["lx"] = json!(CUR.with(|c| c.get()));
    }
    LOG.with(|l| l.borrow_mut().push(ev));
}

pub fn on_action(
    st: &mut St,
    rule: i64,
    menu: &[D],
    ms: Loc,
    me: Loc,
    tx: Option<String>,
    pk: Option<char>,
) -> Dec {
    TICKS.fetch_add(1, std::sync::atomic::Ordering::Relaxed);
    let left = ACTION_BUDGET.with(|c| {
        c.set(c.get() - 1);
        c.get()
    });
    if left < 0 {
        panic!("VERIF: more action invocations than characters + 10 (lexer does not make progress)");
    }
    let n = st.n;
    let ch = SCRIPT.with(|s| s.borrow().get(n as usize).copied().unwrap_or(0)) % menu.len();
    let mut ev = json!({
        "k": "A", "r": rule, "n": n, "ms": loc(ms), "me": loc(me),
        "pk": pk.map(|c| c as i64).unwrap_or(-1), "ch": ch,
    });
    if let Some(tx) = tx {
        ev["tx"] = Value::Array(tx.chars().map(|c| json!(c as u32)).collect());
    }
    push(ev);
    st.n += 1;
    let d = menu[ch];
    Dec { reset: d.reset, sw: d.sw, ret: d.ret, r: rule, q: n }
}

pub type Item = Result<(Loc, Tok, Loc), LexerError<UErr>>;

fn push_item(item: &Option<Item>) {
    let ev = match item {
        None => json!({"k": "N"}),
        Some(Ok((s, t, e))) => json!({"k": "T", "r": t.r, "q": t.q, "s": loc(*s), "e": loc(*e)}),
        Some(Err(LexerError { location, kind: LexerErrorKind::InvalidToken })) => {
            json!({"k": "I", "at": loc(*location)})
        }
        Some(Err(LexerError { location, kind: LexerErrorKind::Custom(e) })) => {
            json!({"k": "C", "r": e.r, "q": e.q, "at": loc(*location)})
        }
    };
    push(ev);
}

/// Cloneable character iterator over shared storage (for the `new_from_iter*` constructors).
#[derive(Clone)]
pub struct VecIter {
    chars: Rc<Vec<char>>,
    idx: usize,
}

impl VecIter {
    pub fn new(chars: Rc<Vec<char>>) -> VecIter {
        VecIter { chars, idx: 0 }
    }
}

impl Iterator for VecIter {
    type Item = char;
    fn next(&mut self) -> Option<char> {
        let c = self.chars.get(self.idx).copied();
        if c.is_some() {
            self.idx += 1;
        }
        c
    }
}

/// What the driver needs from a generated lexer.
pub trait Lx: Iterator<Item = Item> + Clone {
    fn user_state(&mut self) -> St;
    /// The public registers `__state`, `__initial_state`, `__done`.
    fn regs(&self) -> (usize, usize, bool);
}

thread_local! {
    static FINE: Cell<bool> = const { Cell::new(false) };
}

/// Marker in the fine-grained (per library operation) event stream.
/// kind: 1 action starts (arg = rule), 2 token, 3 InvalidToken, 4 custom error, 5 None.
pub fn fine_mark(kind: i64, arg: i64, state: usize, initial_state: usize, done: bool) {
    if FINE.with(|c| c.get()) {
        lexgen_util::verif::mark(kind, arg, state, initial_state, done);
    }
}

fn fine_loc(l: Loc) -> Value {
    json!([l.line, l.col, l.byte_idx])
}

/// The fine-grained events recorded since `begin_run`, as JSON.
pub fn take_fine() -> Vec<Value> {
    use lexgen_util::verif::Op;
    lexgen_util::verif::take()
        .into_iter()
        .map(|e| {
            let op = match e.op {
                Op::Next => "N",
                Op::Peek => "P",
                Op::BacktrackOk => "BO",
                Op::BacktrackErr => "BE",
                Op::SetAccepting => "SA",
                Op::ResetAccepting => "RA",
                Op::ResetMatch => "RM",
                Op::Mark => "M",
            };
            json!({
                "op": op,
                "c": e.c.map(|c| c as i64).unwrap_or(-1),
                "st": e.state, "ini": e.initial_state, "dn": e.done,
                "ms": fine_loc(e.match_start), "me": fine_loc(e.match_end),
                "lm": match e.last_match { None => json!([]), Some((s, t)) => json!([fine_loc(s), fine_loc(t)]) },
                "mk": [e.mark.0, e.mark.1],
            })
        })
        .collect()
}

pub struct Req {
    pub text: String,
    pub chars: Rc<Vec<char>>,
    pub script: Vec<usize>,
    pub ctor: u8,
    /// Number of `next()` calls to make on the original (None: until `None` plus three more).
    pub calls: Option<usize>,
    /// Clone the lexer after this many calls (-1: never).
    pub clone_at: i64,
    pub sched: Vec<u8>,
}

/// Run `lexer` as described by `req`, logging into the thread-local event log.
pub fn drive<L: Lx>(lexer: L, req: &Req) {
    let n_chars = req.chars.len();
    let max_calls = req.calls.unwrap_or(n_chars + 6);
    let mut lexers: Vec<(L, usize, usize, usize)> = vec![(lexer, 0, max_calls, 0)]; // lexer, calls made, budget, nones
    let mut sched = req.sched.iter().copied();
    let mut turn = 0usize;
    // (items yielded before the call, lower, upper) of every size_hint() taken, per lexer
    let mut hints: Vec<Vec<(usize, usize, Option<usize>)>> = Vec::new();
    let mut somes: Vec<usize> = Vec::new();
    loop {
        if req.clone_at >= 0 && lexers.len() == 1 && lexers[0].1 == req.clone_at as usize {
            let c = lexers[0].0.clone();
            let budget = lexers[0].2.saturating_sub(lexers[0].1);
            let nones = lexers[0].3;
            lexers.push((c, 0, budget, nones));
        }
        let live: Vec<usize> = (0..lexers.len())
            .filter(|i| {
                let (_, made, budget, nones) = &lexers[*i];
                made < budget && (req.calls.is_some() || *nones < 4)
            })
            .collect();
        if live.is_empty() {
            break;
        }
        let want = match sched.next() {
            Some(w) => w as usize,
            None => {
                turn += 1;
                turn % 2
            }
        };
        // Before the clone point only the original exists.
        let pick = if live.contains(&want) { want } else { live[0] };
        CUR.with(|c| c.set(pick as i64));
        // The lexer is an Iterator: adaptors such as collect() / extend() ask for a size hint
        // between calls, so the harness does too (a panic in it is a panic of the lexer).
        let hint = lexers[pick].0.size_hint();
        while hints.len() <= pick {
            hints.push(Vec::new());
            somes.push(0usize);
        }
        hints[pick].push((somes[pick], hint.0, hint.1));
        let item = lexers[pick].0.next();
        if item.is_none() {
            lexers[pick].3 += 1;
        } else {
            somes[pick] += 1;
        }
        {
            let (st, ini, dn) = lexers[pick].0.regs();
            let (kind, arg) = match &item {
                None => (5, 0),
                Some(Ok((_, t, _))) => (2, t.r),
                Some(Err(LexerError { kind: LexerErrorKind::InvalidToken, .. })) => (3, 0),
                Some(Err(LexerError { kind: LexerErrorKind::Custom(e), .. })) => (4, e.r),
            };
            fine_mark(kind, arg, st, ini, dn);
        }
        push_item(&item);
        lexers[pick].1 += 1;
    }
    // Iterator contract of the hints, for lexers that were run to their final None: the number
    // of items that followed must lie within the bounds given.
    for (i, hs) in hints.iter().enumerate() {
        if lexers[i].3 == 0 {
            continue;
        }
        for (before, lo, hi) in hs {
            let remaining = somes[i] - before;
            if *lo > remaining || hi.map_or(false, |h| h < remaining) {
                CUR.with(|c| c.set(i as i64));
                push(json!({"k": "P", "msg": format!(
                    "size_hint() = ({}, {:?}) but {} items followed", lo, hi, remaining)}));
                break;
            }
        }
    }
    for (i, (l, _, _, _)) in lexers.iter_mut().enumerate() {
        CUR.with(|c| c.set(i as i64));
        let st = l.user_state();
        push(json!({"k": "S", "n": st.n}));
    }
}

pub fn begin_run(script: &[usize], use_text: bool, tag_lx: bool, action_budget: i64, fine: bool) {
    FINE.with(|c| c.set(fine));
    lexgen_util::verif::record(fine);
    ACTION_BUDGET.with(|c| c.set(action_budget));
    LOG.with(|l| l.borrow_mut().clear());
    SCRIPT.with(|s| *s.borrow_mut() = script.to_vec());
    USE_TEXT.with(|c| c.set(use_text));
    TAG_LX.with(|c| c.set(tag_lx));
    CUR.with(|c| c.set(0));
}

pub fn take_log() -> Vec<Value> {
    LOG.with(|l| std::mem::take(&mut *l.borrow_mut()))
}

/// Body of an infallible (`=>`) action of a lexer with rule sets.
#[macro_export]
macro_rules! act {
    ($lx:ident, $rule:expr, $menu:expr, $sw:ident) => {{
        $crate::drv::fine_mark(1, $rule, $lx.0.__state, $lx.0.__initial_state, $lx.0.__done);
        let (ms, me) = $lx.match_loc();
        let pk = $lx.peek();
        let tx = if $crate::drv::use_text() { Some($lx.match_().to_string()) } else { None };
        let d = $crate::drv::on_action($lx.state(), $rule, &$menu, ms, me, tx, pk);
        if d.reset {
            $lx.reset_match();
        }
        match (d.sw, d.ret) {
            (-1, 0) => $lx.continue_(),
            (-1, _) => $lx.return_(d.tok()),
            (s, 0) => $lx.switch($sw(s)),
            (s, _) => $lx.switch_and_return($sw(s), d.tok()),
        }
    }};
}

/// Body of a fallible (`=?`) action of a lexer with rule sets.
#[macro_export]
macro_rules! actf {
    ($lx:ident, $rule:expr, $menu:expr, $sw:ident) => {{
        $crate::drv::fine_mark(1, $rule, $lx.0.__state, $lx.0.__initial_state, $lx.0.__done);
        let (ms, me) = $lx.match_loc();
        let pk = $lx.peek();
        let tx = if $crate::drv::use_text() { Some($lx.match_().to_string()) } else { None };
        let d = $crate::drv::on_action($lx.state(), $rule, &$menu, ms, me, tx, pk);
        if d.reset {
            $lx.reset_match();
        }
        match (d.sw, d.ret) {
            (-1, 0) => $lx.continue_(),
            (-1, _) => $lx.return_(d.res()),
            (s, 0) => $lx.switch($sw(s)),
            (s, _) => $lx.switch_and_return($sw(s), d.res()),
        }
    }};
}

/// Same, for lexers without rule sets (no `switch`).
#[macro_export]
macro_rules! act_ns {
    ($lx:ident, $rule:expr, $menu:expr) => {{
        $crate::drv::fine_mark(1, $rule, $lx.0.__state, $lx.0.__initial_state, $lx.0.__done);
        let (ms, me) = $lx.match_loc();
        let pk = $lx.peek();
        let tx = if $crate::drv::use_text() { Some($lx.match_().to_string()) } else { None };
        let d = $crate::drv::on_action($lx.state(), $rule, &$menu, ms, me, tx, pk);
        if d.reset {
            $lx.reset_match();
        }
        match d.ret {
            0 => $lx.continue_(),
            _ => $lx.return_(d.tok()),
        }
    }};
}

#[macro_export]
macro_rules! actf_ns {
    ($lx:ident, $rule:expr, $menu:expr) => {{
        $crate::drv::fine_mark(1, $rule, $lx.0.__state, $lx.0.__initial_state, $lx.0.__done);
        let (ms, me) = $lx.match_loc();
        let pk = $lx.peek();
        let tx = if $crate::drv::use_text() { Some($lx.match_().to_string()) } else { None };
        let d = $crate::drv::on_action($lx.state(), $rule, &$menu, ms, me, tx, pk);
        if d.reset {
            $lx.reset_match();
        }
        match d.ret {
            0 => $lx.continue_(),
            _ => $lx.return_(d.res()),
        }
    }};
}

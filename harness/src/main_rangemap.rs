// Replays range-map transitions printed by TLC (spec/RangeMap.tla) into the real RangeMap of
// crates/lexgen/src/range_map.rs (included by path: the module is self-contained).
//   rangemap <transitions.ndjson> <results.ndjson>
// transition: {"k": "ins"|"insr"|"rem", "a", "b", "v": [..], "m": [{s,e,v}], "before": [...], "after": [...]}
// result: one line per transition whose real outcome is not exactly `after`:
//   {"i": n, "actual": [{s,e,v}] } or {"i": n, "panic": "..."}; last line {"done": true, "n": N, "exact": M}

use range_map::{Range, RangeMap};
use serde_json::{json, Value};
use std::io::{BufRead, BufReader, BufWriter, Write};

type V = Vec<u64>;

fn merge(a: &mut V, b: V) {
    for x in b {
        if !a.contains(&x) {
            a.push(x);
        }
    }
    a.sort();
}

fn pieces(v: &Value) -> Vec<Range<V>> {
    v.as_array()
        .unwrap()
        .iter()
        .map(|r| Range {
            start: r["s"].as_u64().unwrap() as u32,
            end: r["e"].as_u64().unwrap() as u32,
            value: r["v"].as_array().unwrap().iter().map(|x| x.as_u64().unwrap()).collect(),
        })
        .collect()
}

fn to_json(m: &RangeMap<V>) -> Value {
    Value::Array(
        m.iter()
            .map(|r| json!({"s": r.start, "e": r.end, "v": r.value}))
            .collect(),
    )
}

fn main() {
    let args: Vec<String> = std::env::args().collect();
    let input = BufReader::new(std::fs::File::open(&args[1]).expect("open"));
    let mut out = BufWriter::new(std::fs::File::create(&args[2]).expect("create"));
    std::panic::set_hook(Box::new(|_| {}));
    let mut n = 0u64;
    let mut exact = 0u64;
    for (i, line) in input.lines().enumerate() {
        let line = line.unwrap();
        if line.is_empty() {
            continue;
        }
        let t: Value = serde_json::from_str(&line).unwrap();
        n += 1;
        let res = std::panic::catch_unwind(|| {
            let mut map = RangeMap::from_non_overlapping_sorted_ranges(pieces(&t["before"]));
            match t["k"].as_str().unwrap() {
                "ins" => {
                    let v: V = t["v"].as_array().unwrap().iter().map(|x| x.as_u64().unwrap()).collect();
                    map.insert(t["a"].as_u64().unwrap() as u32, t["b"].as_u64().unwrap() as u32, v, merge);
                }
                "insr" => {
                    let other = RangeMap::from_non_overlapping_sorted_ranges(pieces(&t["m"]));
                    map.insert_ranges(other.into_iter(), merge);
                }
                "rem" => {
                    let other = RangeMap::from_non_overlapping_sorted_ranges(pieces(&t["m"]));
                    map.remove_ranges(&other);
                }
                k => panic!("unknown op {}", k),
            }
            to_json(&map)
        });
        match res {
            Ok(actual) => {
                if actual == t["after"] {
                    exact += 1;
                } else {
                    writeln!(out, "{}", json!({"i": i, "actual": actual})).unwrap();
                }
            }
            Err(p) => {
                let msg = if let Some(s) = p.downcast_ref::<&str>() {
                    s.to_string()
                } else if let Some(s) = p.downcast_ref::<String>() {
                    s.clone()
                } else {
                    "?".to_string()
                };
                writeln!(out, "{}", json!({"i": i, "panic": msg})).unwrap();
            }
        }
    }
    writeln!(out, "{}", json!({"done": true, "n": n, "exact": exact})).unwrap();
    out.flush().unwrap();
}

// C13: sweeps one-rule lexers over every Unicode scalar value.
//   builtin <results.json>
// `generated::sweeps()` lists (id, fn) where fn lexes a string of all scalar values (or, for
// right-context lexers, of "a<c>" pairs) and returns the maximal runs of scalars c that were
// accepted by rule 0.  Also prints the maximal runs of the 20 Rust predicates (the oracle).

use serde_json::{json, Value};

pub fn runs_of(accepted: &[bool]) -> Vec<(u32, u32)> {
    let mut out: Vec<(u32, u32)> = vec![];
    for (c, ok) in accepted.iter().enumerate() {
        if *ok {
            let c = c as u32;
            match out.last_mut() {
                Some((_, e)) if *e + 1 == c => *e = c,
                _ => out.push((c, c)),
            }
        }
    }
    out
}

pub fn all_scalars() -> String {
    let mut s = String::with_capacity(4_500_000);
    for c in 0..=0x10FFFFu32 {
        if let Some(ch) = char::from_u32(c) {
            s.push(ch);
        }
    }
    s
}

/// "a" followed by each scalar value except 'a' itself.
pub fn ctx_pairs() -> String {
    let mut s = String::with_capacity(5_600_000);
    for c in 0..=0x10FFFFu32 {
        if c == 'a' as u32 {
            continue;
        }
        if let Some(ch) = char::from_u32(c) {
            s.push('a');
            s.push(ch);
        }
    }
    s
}

fn main() {
    let args: Vec<String> = std::env::args().collect();
    let only: Option<&str> = args.get(2).map(|s| s.as_str());
    std::panic::set_hook(Box::new(|_| {}));
    let mut results: Vec<Value> = vec![];
    for (id, f) in generated::sweeps() {
        if let Some(o) = only {
            if o != id {
                continue;
            }
        }
        match std::panic::catch_unwind(f) {
            Ok(runs) => results.push(json!({"id": id, "runs": runs})),
            Err(p) => {
                let msg = if let Some(s) = p.downcast_ref::<&str>() {
                    s.to_string()
                } else if let Some(s) = p.downcast_ref::<String>() {
                    s.clone()
                } else {
                    "?".to_string()
                };
                results.push(json!({"id": id, "panic": msg}))
            }
        }
    }
    let mut preds: Vec<Value> = vec![];
    for (f, name) in crg::verif_predicates().iter() {
        let mut acc = vec![false; 0x110000];
        for c in 0..=0x10FFFFu32 {
            if let Some(ch) = char::from_u32(c) {
                acc[c as usize] = f(ch);
            }
        }
        preds.push(json!({"name": name, "runs": runs_of(&acc)}));
    }
    std::fs::write(&args[1], serde_json::to_string(&json!({"sweeps": results, "predicates": preds})).unwrap()).unwrap();
}

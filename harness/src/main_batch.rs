// Batch binary: `batch <requests.ndjson> <results.ndjson>`.
// Each request line: {"i", "p", "inp", "script", "ctor", "clone_at", "sched", "ev"?}.
// Each result line: {"i", "ok": true} or {"i", "ok": false, "ev": [...actual...], "why": ...}.

use serde_json::{json, Value};
use std::io::{BufRead, BufReader, BufWriter, Write};
use std::rc::Rc;
use std::sync::atomic::{AtomicI64, Ordering};
use std::sync::{Arc, Mutex};

static CUR_IDX: AtomicI64 = AtomicI64::new(-1);
use drv::TICKS;

fn is_item(ev: &Value) -> bool {
    matches!(ev["k"].as_str(), Some("T") | Some("I") | Some("C") | Some("N"))
}

fn strip_tx(evs: &mut [Value]) {
    for ev in evs.iter_mut() {
        if let Some(obj) = ev.as_object_mut() {
            obj.remove("tx");
        }
    }
}

fn main() {
    let args: Vec<String> = std::env::args().collect();
    let reqs = BufReader::new(std::fs::File::open(&args[1]).expect("open requests"));
    let out = Arc::new(Mutex::new(BufWriter::new(
        std::fs::File::create(&args[2]).expect("create results"),
    )));
    let cur_path = format!("{}.cur", args[2]);
    let hang_secs: u64 = std::env::var("VERIF_HANG_SECS")
        .ok()
        .and_then(|s| s.parse().ok())
        .unwrap_or(120);

    std::panic::set_hook(Box::new(|_| {}));

    {
        let out = out.clone();
        std::thread::spawn(move || {
            let mut last = (-2i64, 0u64);
            let mut since = std::time::Instant::now();
            loop {
                std::thread::sleep(std::time::Duration::from_millis(200));
                let now = (CUR_IDX.load(Ordering::SeqCst), TICKS.load(Ordering::SeqCst));
                if now != last {
                    last = now;
                    since = std::time::Instant::now();
                } else if now.0 >= 0 && since.elapsed().as_secs() >= hang_secs {
                    let mut out = out.lock().unwrap();
                    let _ = writeln!(
                        out,
                        "{}",
                        json!({"i": now.0, "ok": false, "ev": [{"k": "H"}], "why": "hang"})
                    );
                    let _ = out.flush();
                    std::process::exit(98);
                }
            }
        });
    }

    let registry: std::collections::HashMap<i64, fn(&drv::Req)> =
        generated::registry().into_iter().collect();

    let mut n_ok = 0u64;
    let mut n_bad = 0u64;
    let mut n_skip = 0u64;

    for line in reqs.lines() {
        let line = line.expect("read");
        if line.is_empty() {
            continue;
        }
        let req: Value = serde_json::from_str(&line).expect("request json");
        let p = req["p"].as_i64().unwrap();
        let run = match registry.get(&p) {
            Some(run) => *run,
            None => {
                n_skip += 1;
                continue;
            }
        };
        let idx = req["i"].as_i64().unwrap();
        let chars: Vec<char> = req["inp"]
            .as_array()
            .unwrap()
            .iter()
            .map(|c| char::from_u32(c.as_u64().unwrap() as u32).unwrap())
            .collect();
        let script: Vec<usize> = req["script"]
            .as_array()
            .map(|a| a.iter().map(|c| c.as_u64().unwrap() as usize).collect())
            .unwrap_or_default();
        let ctor = req["ctor"].as_u64().unwrap_or(0) as u8;
        let clone_at = req["clone_at"].as_i64().unwrap_or(-1);
        let sched: Vec<u8> = req["sched"]
            .as_array()
            .map(|a| a.iter().map(|c| c.as_u64().unwrap() as u8).collect())
            .unwrap_or_default();
        let expected: Option<Vec<Value>> = req["ev"].as_array().cloned();
        let calls = expected
            .as_ref()
            .map(|evs| evs.iter().filter(|e| is_item(e)).count());

        let r = drv::Req {
            text: chars.iter().collect(),
            chars: Rc::new(chars),
            script,
            ctor,
            calls,
            clone_at,
            sched,
        };

        CUR_IDX.store(idx, Ordering::SeqCst);
        TICKS.fetch_add(1, Ordering::SeqCst);
        // which request is running: read by the parent if this process dies (stack overflow,
        // abort) instead of panicking or hanging
        let _ = std::fs::write(&cur_path, idx.to_string());
        let notx = req["notx"].as_bool().unwrap_or(false);
        // Two lexers (original and clone) may each run every action once.
        let budget = (r.chars.len() as i64 + 10) * if clone_at >= 0 { 2 } else { 1 };
        let fine = req["fine"].as_bool().unwrap_or(false) && clone_at < 0;
        drv::begin_run(&r.script, ctor < 2 && !notx, clone_at >= 0, budget, fine);
        let res = std::panic::catch_unwind(std::panic::AssertUnwindSafe(|| run(&r)));
        let mut actual = drv::take_log();
        let fine_events = if fine { drv::take_fine() } else { vec![] };
        if let Err(payload) = res {
            let msg = if let Some(s) = payload.downcast_ref::<&str>() {
                s.to_string()
            } else if let Some(s) = payload.downcast_ref::<String>() {
                s.clone()
            } else {
                "?".to_string()
            };
            actual.push(json!({"k": "P", "msg": msg}));
        }
        CUR_IDX.store(-1, Ordering::SeqCst);

        let verdict = match expected {
            None => None,
            Some(mut exp) => {
                if ctor >= 2 {
                    strip_tx(&mut exp);
                }
                if clone_at < 0 {
                    Some(exp == actual)
                } else {
                    // Split actual by lexer; expected stream of the clone is the suffix after the
                    // clone_at-th item, plus the final user-state event.
                    let mut a0: Vec<Value> = vec![];
                    let mut a1: Vec<Value> = vec![];
                    for ev in actual.iter() {
                        let mut ev = ev.clone();
                        let lx = ev["lx"].as_i64().unwrap_or(0);
                        ev.as_object_mut().unwrap().remove("lx");
                        if lx == 0 {
                            a0.push(ev)
                        } else {
                            a1.push(ev)
                        }
                    }
                    let mut seen = 0i64;
                    let mut cut = 0usize;
                    if clone_at > 0 {
                        for (k, ev) in exp.iter().enumerate() {
                            if is_item(ev) {
                                seen += 1;
                                if seen == clone_at {
                                    cut = k + 1;
                                    break;
                                }
                            }
                        }
                    }
                    let e1: Vec<Value> = exp[cut..].to_vec();
                    Some(exp == a0 && e1 == a1)
                }
            }
        };

        let mut out = out.lock().unwrap();
        match verdict {
            Some(true) => {
                n_ok += 1;
            }
            Some(false) => {
                n_bad += 1;
                writeln!(out, "{}", json!({"i": idx, "ok": false, "ev": actual})).unwrap();
            }
            None => {
                if fine {
                    writeln!(out, "{}", json!({"i": idx, "ev": actual, "fine": fine_events})).unwrap();
                } else {
                    writeln!(out, "{}", json!({"i": idx, "ev": actual})).unwrap();
                }
            }
        }
    }

    let mut out = out.lock().unwrap();
    writeln!(out, "{}", json!({"done": true, "ok": n_ok, "bad": n_bad, "skipped": n_skip})).unwrap();
    out.flush().unwrap();
}

#!/bin/sh
# tools/confirm_seed.sh <agent worktree> <seed id>: independently confirm an agent's seeded change:
# patch applies to /repo HEAD, the full suite passes with it, the demo fails with it and passes without.
wt="$1"; id="$2"
out=/verif/seeded/$id
mkdir -p $out
cp $wt/_out/patch.diff $out/patch.diff
cp $wt/_out/seeded_demo.rs $out/seeded_demo.rs
cp $wt/_out/notes.md $out/agent_notes.md 2>/dev/null
c=/tmp/wt/confirm_$id
git -C /repo worktree remove --force $c 2>/dev/null
git -C /repo worktree add -q --detach $c HEAD || exit 2
cp /repo/Cargo.lock $c/
export CARGO_TARGET_DIR=/tmp/wt/confirm_target
cd $c
git apply $out/patch.diff || { echo "PATCH DOES NOT APPLY"; exit 1; }
suite=$(timeout 1200 cargo test --workspace --offline --no-fail-fast 2>&1 | grep -E "^test result" | awk '{p+=$4; f+=$6} END {print p" passed, "f" failed"}')
cp $out/seeded_demo.rs crates/lexgen/tests/seeded_demo.rs
with=$(timeout 900 cargo test --offline -p lexgen --test seeded_demo 2>&1 | grep -E "^test result" | tail -1)
git apply -R $out/patch.diff
without=$(timeout 900 cargo test --offline -p lexgen --test seeded_demo 2>&1 | grep -E "^test result" | tail -1)
echo "suite with change: $suite"
echo "demo with change:    $with"
echo "demo without change: $without"
cd /verif
git -C /repo worktree remove --force $c
printf '%s\n%s\n%s\n' "suite with change: $suite" "demo with change: $with" "demo without change: $without" > $out/confirm.txt

#!/bin/sh
# tools/confirm_seed_sh.sh <agent worktree> <seed id>: like confirm_seed.sh for seeds whose
# demonstration is _out/demo.sh (exit 0 = property holds, non-zero = violated).
wt="$1"; id="$2"
out=/verif/seeded/$id
mkdir -p $out
cp $wt/_out/patch.diff $wt/_out/demo.sh $out/
cp $wt/_out/notes.md $out/agent_notes.md 2>/dev/null
c=/tmp/wt/confirm_$id
git -C /repo worktree remove --force $c 2>/dev/null
git -C /repo worktree add -q --detach $c HEAD || exit 2
cp /repo/Cargo.lock $c/
mkdir -p $c/_out && cp $out/demo.sh $c/_out/
cd $c
git apply $out/patch.diff || { echo "PATCH DOES NOT APPLY"; exit 1; }
suite=$(CARGO_TARGET_DIR=/tmp/wt/confirm_target timeout 1200 cargo test --workspace --offline --no-fail-fast 2>&1 | grep -E "^test result" | awk '{p+=$4; f+=$6} END {print p" passed, "f" failed"}')
bash _out/demo.sh > /tmp/wt/demo_a.log 2>&1; a=$?
git apply -R $out/patch.diff
bash _out/demo.sh > /tmp/wt/demo_b.log 2>&1; b=$?
echo "suite with change: $suite; demo.sh with change rc=$a; without rc=$b"
cd /verif
printf 'suite with change: %s\ndemo.sh with change: rc=%s\ndemo.sh without change: rc=%s\n' "$suite" $a $b > $out/confirm.txt
git -C /repo worktree remove --force $c

#!/bin/sh
# tools/runseed.sh <seed>: all quick checks with another seed, evidence redirected (false-alarm hunt)
export VERIF_SEED=$1
export VERIF_EVIDENCE_DIR=/verif/build/seed_evidence_$1
for c in C01 C02 C03 C04 C05 C06 C07 C08 C09 C10 C11 C12 C13 C14 C15 C16 C17 C18; do
  ./check $c --tier quick > build/seed$1_$c.out 2>&1
  echo "$c rc=$? $(tail -1 build/seed$1_$c.out)"
  grep -E "^(VIOLATION|TOOL-ERROR)" -A1 build/seed$1_$c.out | head -4 | cut -c1-300
done

#!/usr/bin/env python3
"""Regenerates MANIFEST.json from the table below (single source for check registration)."""
import json, os, sys
ROOT = os.path.dirname(os.path.dirname(os.path.abspath(__file__)))

REPLAY_TECH = "TLA+ reference spec (RefLexer.tla) + TLC behaviour enumeration replayed into the real lexers; recorded runs validated by TLC against Trace_RefLexer.tla (observable events), LexUtil.tla (every library operation) and Machine.tla (generated code over the dumped automaton)"
TRUST = "bounded: finite program family and input length; trusted: TLC, the TLA+ reading of the README (Regex.tla, RefLexer.tla, Chars.tla), the Rust harness driver, rustc"

CHECKS = {
 "C01": ("model_checking", "TLC enumerates every behaviour of the reference specification (declarative longest-match / first-rule selection over the regex languages) for each program of the family and every input up to the bound; each expected trace is replayed in the real generated lexer and the (rule, lexeme) sequences compared.", REPLAY_TECH, "DESIGN.md 5 C01"),
 "C02": ("model_checking", "Every automaton the real macro builds for the bounded-exhaustive regex family (and for random larger definitions) is compared by TLC with the Antimirov derivative automaton of the definition by exploring the product of the two (Bisim.tla) - exact for all strings because both are finite; each automaton is also compared with the reference automaton of an equivalent regex (README equivalences); TLC checks that the declarative language semantics (Ends) and the derivative automaton agree; a sample is compiled and run on all short inputs.", "TLC product exploration (bisimulation) of real dumped automata against the TLA+ reference automaton; replay of RefLexer behaviours", "DESIGN.md 5 C02"),
 "C03": ("model_checking", "As C01 with multi-rule-set programs whose actions take every history of switch/continue/return decisions their menus allow (TLC explores all of them); the rule that runs must belong to the rule set the specification says is active.", REPLAY_TECH, "DESIGN.md 5 C03"),
 "C04": ("model_checking", "As C01 for programs whose rules carry right contexts of every shape; the reference treats a candidate with a failed context as absent and never consumes the context.", REPLAY_TECH, "DESIGN.md 5 C04"),
 "C05": ("model_checking", "TLC enumerates all inputs up to the bound, hence every point at which the input can end, for programs with and without `$` rules in Init and other rule sets; items around end-of-input and four extra next() calls are compared with the specification (Fused, Progress checked on the spec).", REPLAY_TECH, "DESIGN.md 5 C05"),
 "C06": ("model_checking", "Locations in the specification are the left fold of Advance over the input (Chars.tla); every Loc triple and match text of every behaviour over an alphabet of newline, tab, 2-4 byte, wide and zero-width characters is compared, including after rewinds.", REPLAY_TECH, "DESIGN.md 5 C06"),
 "C07": ("model_checking", "The specification raises InvalidToken exactly when no candidate exists and locates every error at the match start; all error items (kind, payload, location) of all behaviours are compared.", REPLAY_TECH, "DESIGN.md 5 C07"),
 "C08": ("model_checking", "After RefFail the specification resumes after the examined characters, in Init, with an empty match; the whole remaining trace of every behaviour with unlexable input is compared.", REPLAY_TECH, "DESIGN.md 5 C08"),
 "C09": ("model_checking", "TLC checks the variant (Progress) and the bounds (Bounded) on the specification; real lexers are run freely under catch_unwind, an action budget and a watchdog on exhaustive small and random/long inputs, and each recording is validated by TLC as a behaviour of the specification.", REPLAY_TECH, "DESIGN.md 5 C09"),
 "C10": ("model_checking", "TLC explores every decision history the rules' menus allow (continue/return/Err x reset_match x switch); every action invocation (rule, match_loc, match_ text, peek, user-state counter) and every token is compared.", REPLAY_TECH, "DESIGN.md 5 C10"),
 "C11": ("model_checking", "RangeMap.tla transcribes the three loops of range_map.rs iteration by iteration; TLC checks well-formedness and the point-wise meaning for every reachable representation and every operation over a small universe and prints every transition; each transition is replayed into the real RangeMap (by induction: all operation histories); one-class lexers for class expressions are checked against RefLexer.tla at every boundary point.", "TLA+ loop-level spec of RangeMap + TLC state graph replayed transition by transition into the real code; class-expression lexers replayed against RefLexer.tla", "DESIGN.md 5 C11"),
 "C12": ("model_checking", "Backtrack.tla: TLC checks termination (liveness under weak fairness), monotonicity and result correctness of the work-list analysis for every small graph and every processing order; the iterations recorded from the real analysis are validated as behaviours of that spec; Names.tla: generated item names of two lexers are disjoint and recorded names match the scheme; the real macro expands a seeded family twice under a watchdog (determinism, time) and rustc compiles the scenarios the property lists. 'Compiles' is observed with rustc, which no spec can replace.", "TLA+ work-list spec (liveness) + trace validation of recorded iterations; expansion under watchdog; rustc as oracle for 'compiles'", "DESIGN.md 5 C12"),
 "C13": ("exploration", "Exhaustive over the stated domain: every built-in, three to four generated shapes, all 1,112,064 scalar values, compared with the Rust predicates (oracle imported at check time); TLC checks the two generated membership-test shapes (guard chain, binary search with the generated comparator) on all small tables (Lookup.tla). The truth of char::is_* cannot live in a TLA+ spec, hence exploration level.", "exhaustive sweep of real lexers against Rust predicates + TLA+ Lookup.tla for the two lookup shapes", "DESIGN.md 5 C13"),
 "C14": ("model_checking", "Every specification behaviour is replayed through the four constructors; the four recorded streams must be the same stream; random runs through random constructors are validated by TLC.", REPLAY_TECH, "DESIGN.md 5 C14"),
 "C16": ("model_checking", "Syntax.tla states the documented five-level grammar as a recursive-descent parser and a minimal/redundant printer; TLC checks Parse(Print(t)) = t for every tree up to the bound and prints every (tree, token string); each string is expanded by the real macro and the syntax tree built by its parser (dump hook) is compared with the tree; let-factoring variants must give identical automata; a rule-set-local binding used elsewhere must be rejected.", "TLA+ grammar spec + TLC enumeration of printed trees replayed into the real parser", "DESIGN.md 5 C16"),
 "C17": ("model_checking", "Defs.tla defines static well-formedness over an abstract syntax of definitions (items, lets with lazily resolved uses, rule sets, error type); TLC enumerates every definition up to the bound with its verdict; each is rendered and expanded by the real macro: ill-formed => panic or compile_error, never code (and well-formed ones expand).", "TLA+ well-formedness spec + TLC enumeration of all small definitions replayed into the real macro", "DESIGN.md 5 C17"),
 "C18": ("model_checking", "CharRangeGen.tla models the generator's single pass (one action per code point, skip of the surrogate gap, open-range register, final flush); TLC runs it for all 256 predicates that are constant on 8 scalar segments, checks the result property and termination, and every predicate is concretised and run through the real generator; the 20 real predicates are compared with brute-force maximal runs.", "TLA+ spec of the generator loop + TLC over all boundary predicates, each replayed into the real function", "DESIGN.md 5 C18"),
 "C15": ("model_checking", "The specification is deterministic (one successor per decision), so a clone must continue with the same suffix; for every behaviour and every clone point original and clone are advanced under several interleavings and both suffixes compared with the specification.", REPLAY_TECH, "DESIGN.md 5 C15"),
}

PENDING = []

def main():
    checks = []
    for pid in sorted(CHECKS):
        cat, text, tech, ref = CHECKS[pid]
        checks.append({
            "property_id": pid,
            "quick_cmd": "./check %s --tier quick" % pid,
            "thorough_cmd": "./check %s --tier thorough" % pid,
            "evidence_file": "evidence/%s.json" % pid,
            "replay_cmd_template": "./check %s --replay {path}" % pid,
            "engine": "tlc",
            "level_claimed": {"category": cat, "text": text, "design_ref": ref},
            "level_note": TRUST,
            "technique": tech,
        })
    m = {
        "version": 1,
        "setup_cmd": "./check setup",
        "hooks": {
            "guard": "lexgen_verif",
            "enable": "rustflags = [\"--cfg\", \"lexgen_verif\"] in the generated harness workspaces (build/<check>/ws/.cargo/config.toml); path dependencies on /repo/crates/lexgen and /repo/crates/lexgen_util; source files of /repo included with #[path] where no crate boundary exists",
            "baseline_off_cmd": "cd /repo && cargo test --workspace --no-fail-fast --offline",
            "source_commits": ["364e427", "743eaf5", "028cf49", "db9ade9", "6ea72f9", "d85da5b"],
            "add_only": True,
        },
        "engines": [
            {"name": "tlc", "path": "spec/", "serves_properties": sorted(CHECKS),
             "kind_free_text": "explicit TLA+ specifications checked with TLC; bound to the code by replaying TLC-enumerated behaviours into the real code (lib/pipeline.py, harness/) and by validating traces recorded from the real code against trace specifications"},
        ],
        "checks": checks,
        "not_applicable": [{"property_id": p, "reason": "check under construction in this session (will be claimed)"} for p in PENDING if p not in CHECKS],
        "notes": "All checks: ./check <id> [--tier quick|thorough] [--replay file]; VERIF_SEED / VERIF_TIER honoured; exit 0 held, 1 VIOLATION, 2 tool error.",
    }
    with open(os.path.join(ROOT, "MANIFEST.json"), "w") as f:
        json.dump(m, f, indent=1)
        f.write("\n")

main()

#!/bin/sh
# tools/seedmatrix.sh "<seed>:<checks...>" ...   run several seeds, one after the other
for s in "$@"; do id=${s%%:*}; checks=${s#*:}; echo "#### $id"; tools/seedtest.sh seeded/$id/patch.diff $checks 2>&1 | grep -E "^==|TOOL" ; done

#!/bin/sh
# tools/seedregress.sh [seed ids...]: regression of the checks against the seeded changes: for every
# seeded/<id>/meta.json take the first check named in "caught_by", apply the patch to /repo, run that
# check (quick), undo; one line per seed in build/seedregress.log ("-" = not expected to be caught).
cd /verif
ids="${@:-$(ls seeded)}"
: > build/seedregress.log
for id in $ids; do
  [ -f seeded/$id/meta.json ] || continue
  c=$(python3 -c "
import json,re,sys
m=json.load(open('seeded/$id/meta.json'))
x=re.findall(r'C[0-9][0-9]', str(m.get('caught_by','')))
print(x[0] if x else '-')")
  if [ "$c" = "-" ]; then echo "$id - not expected to be caught" >> build/seedregress.log; continue; fi
  r=$(tools/seedtest.sh seeded/$id/patch.diff $c 2>&1 | grep -E "^== " | head -1)
  echo "$id $r" >> build/seedregress.log
done
echo done >> build/seedregress.log

#!/bin/sh
# tools/runall.sh [tier]: run every registered check on the current tree, one after the other.
tier="${1:-quick}"
for c in C01 C02 C03 C04 C05 C06 C07 C08 C09 C10 C11 C12 C13 C14 C15 C16 C17 C18; do
  ./check $c --tier $tier > build/runall_$c.out 2>&1
  echo "$c rc=$? $(tail -1 build/runall_$c.out)"
done

#!/bin/sh
# tools/seedtest.sh <patch.diff> <check id>...   apply a seeded change to /repo, run checks, undo.
patch="$(readlink -f "$1")"; shift
git -C /repo apply "$patch" || { echo "patch does not apply"; exit 2; }
export VERIF_EVIDENCE_DIR=/verif/build/seed_evidence
for c in "$@"; do
  ./check "$c" --tier "${VERIF_TIER:-quick}" > "build/seedtest_$c.out" 2>&1
  rc=$?
  echo "== $c rc=$rc $(grep -c '^VIOLATION' build/seedtest_$c.out) violation line(s); $(grep -E '^(TOOL-ERROR|KNOWN)' build/seedtest_$c.out | head -2)"
  grep -A1 '^VIOLATION' "build/seedtest_$c.out" | head -4 | cut -c1-300
done
git -C /repo checkout -- .

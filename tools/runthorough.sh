#!/bin/sh
# tools/runthorough.sh [check ids...]: thorough tier, one check after the other, with timings.
# With VP_RUN_REPO set (vp run --with-repo) the snapshot of /repo is used.
[ -n "$VP_RUN_REPO" ] && export VERIF_REPO="$VP_RUN_REPO"
ids="${@:-C01 C02 C03 C04 C05 C06 C07 C08 C09 C10 C11 C12 C13 C14 C15 C16 C17 C18}"
mkdir -p build
for c in $ids; do
  start=$(date +%s)
  ./check $c --tier thorough > build/thorough_$c.out 2>&1
  rc=$?
  echo "$c rc=$rc $(( $(date +%s) - start ))s $(tail -1 build/thorough_$c.out)"
  grep -E "^(VIOLATION|TOOL-ERROR)" -A1 build/thorough_$c.out | head -6
done

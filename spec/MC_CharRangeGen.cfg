CONSTANTS
  MaxC = 9
  GapLo = 4
  GapHi = 5
INIT Init
NEXT Next
INVARIANTS ResultCorrect PrintResult
CHECK_DEADLOCK FALSE

CONSTANTS
  Progs <- TProgs
INIT TraceInit
NEXT TraceNext
INVARIANTS TypeOK Bounded PrintAccept
PROPERTIES Progress Fused FailResets
CHECK_DEADLOCK FALSE

CONSTANTS
  Progs <- MCProgs
SPECIFICATION Spec
INVARIANTS TypeOK Bounded
PROPERTIES Terminates Progress Fused FailResets
CHECK_DEADLOCK FALSE

-------------------------- MODULE Trace_Backtrack --------------------------
(***************************************************************************)
(* Trace validation of the real backtrack analysis: for every lexer the    *)
(* macro expanded, the dump hook recorded the automaton, one event per     *)
(* work-list iteration (popped state, popped flag, the flag recorded for   *)
(* the state before the iteration) and the final per-state flags.  The     *)
(* recording must be a behaviour of Backtrack.tla (same actions, the pop   *)
(* order is taken from the recording), must end with an empty work list,   *)
(* and the flags the macro finally stored must be the ones the             *)
(* specification computes, which TLC also compares with the graph-         *)
(* reachability definition (ResultCorrect) on the real automaton.          *)
(***************************************************************************)
EXTENDS Backtrack, Json, IOUtils

VARIABLES rec,   \* the recording being validated
          l,     \* next event
          verdict

tvars == <<vars, rec, l, verdict>>

TRecs == ndJsonDeserialize(IOEnv.VERIF_BT)

\* r.succ[s + 1] lists the targets of state s, one per transition
GraphOf(r) == [n |-> r.n,
               succ |-> [s \in 0..(r.n - 1) |-> r.succ[s + 1]],
               acc |-> {r.acc[i] : i \in 1..Len(r.acc)},
               init |-> {r.init[i] : i \in 1..Len(r.init)}]

TraceInit ==
  /\ LET rs == TRecs IN \E i \in 1..Len(rs) : rec = rs[i] /\ InitFor(GraphOf(rs[i]))
  /\ l = 1
  /\ verdict = "run"

Step ==
  /\ verdict = "run"
  /\ l <= Len(rec.trace)
  /\ LET e == rec.trace[l]
     IN  /\ visited[e.s] = e.prev          \* logged register agrees with the specification's
         /\ Visit(e.s, B(e.b))
  /\ l' = l + 1
  /\ UNCHANGED <<rec, verdict>>

Accept ==
  /\ verdict = "run"
  /\ l = Len(rec.trace) + 1
  /\ Done
  /\ \A s \in States(g) : (visited[s] = 1) = (rec.flags[s + 1] = 1)
  /\ verdict' = "ok"
  /\ UNCHANGED <<vars, rec, l>>

TraceNext == Step \/ Accept

PrintAccept == verdict = "ok" => PrintT(<<"ACCEPT", ToJson([i |-> rec.i])>>)
\* on every accepted recording the result is the reachability definition
AcceptedCorrect == verdict = "ok" => ResultCorrect
=============================================================================

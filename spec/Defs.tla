-------------------------------- MODULE Defs --------------------------------
(***************************************************************************)
(* Static well-formedness of a lexer definition (C17, and the scoping part *)
(* of C16), over an abstract syntax of definitions:                        *)
(*                                                                         *)
(*   definition = sequence of top-level items                              *)
(*   item = [k |-> "err"]                     `type Error = E;`            *)
(*        | [k |-> "let", n, body]            `let n = body;`              *)
(*        | [k |-> "rule", body]              unnamed rule `body = 0,`     *)
(*        | [k |-> "set", n, items]           `rule n { lets and rules }`  *)
(*   body = "lit"      a plain regex                                       *)
(*        | "usex" / "usey"   a regex mentioning $x / $y                   *)
(*        | "badbi"    a regex mentioning an unknown built-in              *)
(*        | "baddiff"  a `#` whose operand is not a character class        *)
(*                                                                         *)
(* WellFormed says which definitions the README allows; the macro must     *)
(* reject exactly the others.  Variables are resolved lazily, when a rule  *)
(* that uses them is compiled, in the environment of that rule: top-level  *)
(* bindings made before the rule (or before its rule set) plus the rule    *)
(* set's own bindings made before it; an unused binding is never looked at.*)
(* TLC enumerates every definition up to a size bound, evaluates           *)
(* WellFormed and prints the definition with the verdict; the harness      *)
(* expands each with the real macro.                                       *)
(***************************************************************************)
EXTENDS Integers, Sequences, FiniteSets, TLC, Json

CONSTANTS MaxTop,    \* max number of top-level items
          MaxInner   \* max number of items inside a rule set

Names == {"x", "y"}
SetNames == {"Init", "A"}
\* `let y` may mention $x, `let x` never mentions $y: no cyclic bindings
LetBodies(n) == IF n = "y" THEN {"lit", "usex", "badbi", "baddiff"} ELSE {"lit", "badbi", "baddiff"}
RuleBodies == {"lit", "usex", "usey", "badbi", "baddiff"}

Inner == {[k |-> "let", n |-> "x", body |-> "lit"]}
         \cup {[k |-> "let", n |-> "y", body |-> b] : b \in {"lit", "usex"}}
         \cup {[k |-> "rule", body |-> b] : b \in {"lit", "usex", "usey", "badbi"}}

SeqsUpTo(S, n) == UNION {[1..m -> S] : m \in 0..n}

Top == {[k |-> "err"]}
       \cup UNION {{[k |-> "let", n |-> n, body |-> b] : b \in LetBodies(n)} : n \in Names}
       \cup {[k |-> "rule", body |-> b] : b \in RuleBodies}
       \cup {[k |-> "set", n |-> n, items |-> its] : n \in SetNames, its \in SeqsUpTo(Inner, MaxInner)}

(***************************************************************************)
(* Well-formedness                                                         *)
(***************************************************************************)
\* env: function from bound names to bodies.  A body is usable in env when everything it
\* mentions resolves (recursively) and it has no static error of its own.
RECURSIVE Usable(_, _)
Usable(body, env) ==
  CASE body = "lit"     -> TRUE
    [] body = "usex"    -> "x" \in DOMAIN env /\ Usable(env["x"], env)
    [] body = "usey"    -> "y" \in DOMAIN env /\ Usable(env["y"], env)
    [] OTHER            -> FALSE          \* badbi, baddiff

Extend(env, n, body) == [m \in DOMAIN env \cup {n} |-> IF m = n THEN body ELSE env[m]]

\* process the items of a rule set in order
RECURSIVE InnerOK(_, _, _)
InnerOK(items, i, env) ==
  IF i > Len(items) THEN TRUE
  ELSE LET it == items[i] IN
       IF it.k = "let"
       THEN it.n \notin DOMAIN env /\ InnerOK(items, i + 1, Extend(env, it.n, it.body))
       ELSE Usable(it.body, env) /\ InnerOK(items, i + 1, env)

\* process top-level items in order; st = [env, sets (names seen), errs, named, unnamed]
RECURSIVE TopOK(_, _, _)
TopOK(items, i, st) ==
  IF i > Len(items) THEN TRUE
  ELSE LET it == items[i] IN
    CASE it.k = "err"  -> st.errs = 0 /\ TopOK(items, i + 1, [st EXCEPT !.errs = 1])
      [] it.k = "let"  -> it.n \notin DOMAIN st.env
                          /\ TopOK(items, i + 1, [st EXCEPT !.env = Extend(st.env, it.n, it.body)])
      [] it.k = "rule" -> Usable(it.body, st.env) /\ TopOK(items, i + 1, st)
      [] it.k = "set"  -> /\ it.n \notin st.sets
                          /\ (it.n # "Init" => "Init" \in st.sets)
                          /\ InnerOK(it.items, 1, st.env)
                          /\ TopOK(items, i + 1, [st EXCEPT !.sets = st.sets \cup {it.n}])

Mixed(items) == (\E i \in 1..Len(items) : items[i].k = "rule") /\ (\E i \in 1..Len(items) : items[i].k = "set")

WellFormed(items) ==
  /\ ~Mixed(items)
  /\ TopOK(items, 1, [env |-> <<>>, sets |-> {}, errs |-> 0])

(***************************************************************************)
(* Model                                                                   *)
(***************************************************************************)
VARIABLE def
Init == def \in SeqsUpTo(Top, MaxTop)
Next == UNCHANGED def

\* sanity: the classes of violation the property lists are all reachable in the model
PrintCase == PrintT(<<"DEF", ToJson([items |-> def, wf |-> WellFormed(def)])>>)
=============================================================================

--------------------------- MODULE Trace_RefLexer ---------------------------
(***************************************************************************)
(* Trace validation (implementation -> specification): every run recorded  *)
(* from a real generated lexer must be a behaviour of RefLexer.            *)
(*                                                                         *)
(* A recorded run is [p, inp, ev]: program id, input, and the observable   *)
(* events in the order they happened (action invocations as logged by the  *)
(* actions themselves through the user state / handle, items as returned   *)
(* by next(), final user state).  The trace spec reuses RefLexer's actions *)
(* unchanged and only adds "the events produced so far are a prefix of the *)
(* recorded ones"; the decision an action took is not given to the spec,   *)
(* TLC infers it from the recorded invocation event.  A run is accepted    *)
(* when the whole recording has been reproduced; runs that are never       *)
(* accepted are the rejected ones (reported by the harness with the        *)
(* expected behaviour computed by MC_RefLexer for that very input).        *)
(* All RefLexer invariants are evaluated at every step of every recording. *)
(***************************************************************************)
EXTENDS RefLexer, Json, IOUtils, TLC, SequencesExt

VARIABLES run,      \* the recorded run being validated
          verdict   \* "run" while validating, "ok" once accepted

tvars == <<vars, run, verdict>>

TProgs == JsonDeserialize(IOEnv.VERIF_PROGS)
TRuns  == ndJsonDeserialize(IOEnv.VERIF_TRACE)

Recorded == run.ev                 \* includes the final [k |-> "S", n |-> ...]
Body == SubSeq(Recorded, 1, Len(Recorded) - 1)

TraceInit ==
  /\ LET ps == TProgs
         rr == TRuns
     IN  \E i \in 1..Len(rr) :
           /\ run = rr[i]
           /\ P = ps[CHOOSE q \in 1..Len(ps) : ps[q].id = rr[i].p]
  /\ inp = run.inp
  /\ pos = 0 /\ ms = 0 /\ rs = 1 /\ fin = FALSE /\ cnt = 0 /\ nones = 0
  /\ script = <<>> /\ hist = <<>> /\ guide = <<>>
  /\ verdict = "run"

\* A produced event matches a recorded one when it agrees on every recorded field (a recording
\* may lack fields: `tx` is not available for lexers built from an iterator).
Matches(specEv, recEv) ==
  /\ DOMAIN recEv \subseteq DOMAIN specEv
  /\ \A f \in DOMAIN recEv : specEv[f] = recEv[f]

Step ==
  /\ verdict = "run"
  /\ Next
  /\ Len(hist') <= Len(Body)
  /\ \A i \in (Len(hist) + 1)..Len(hist') : Matches(hist'[i], Body[i])
  /\ UNCHANGED <<run, verdict>>

Accept ==
  /\ verdict = "run"
  /\ Finished
  /\ Len(hist) = Len(Body)
  /\ Recorded[Len(Recorded)] = [k |-> "S", n |-> cnt]
  /\ verdict' = "ok"
  /\ UNCHANGED <<vars, run>>

TraceNext == Step \/ Accept

PrintAccept == verdict = "ok" => PrintT(<<"ACCEPT", ToJson([i |-> run.i])>>)
=============================================================================

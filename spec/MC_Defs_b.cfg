CONSTANTS
  MaxTop = 2
  MaxInner = 2
INIT Init
NEXT Next
INVARIANTS PrintCase
CHECK_DEADLOCK FALSE

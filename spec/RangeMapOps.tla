---------------------------- MODULE RangeMapOps ----------------------------
(***************************************************************************)
(* The three loops of crates/lexgen/src/range_map.rs as operators on       *)
(* sequences of [s, e, v] (values are sets, merging is union): one         *)
(* recursive call = one loop iteration.  Used by RangeMap.tla (history     *)
(* machine, meaning) and by Stages.tla (NFA construction).                 *)
(***************************************************************************)
EXTENDS Integers, Sequences, FiniteSets

Rng(s, e, v) == [s |-> s, e |-> e, v |-> v]
MaxOf(a, b) == IF a >= b THEN a ELSE b
MinOf(a, b) == IF a <= b THEN a ELSE b

(***************************************************************************)
(* RangeMap::insert(new_range_start, new_range_end, value, merge)          *)
(***************************************************************************)
RECURSIVE InsLoop(_, _, _, _, _, _)
InsLoop(old, i, out, ns, ne, v) ==
  IF i > Len(old)
  THEN \* loop ran out of ranges: push what is left of the new range
       IF out = <<>> \/ out[Len(out)].e < ns THEN Append(out, Rng(ns, ne, v)) ELSE out
  ELSE
    LET r    == old[i]
        rest == SubSeq(old, i + 1, Len(old))
    IN  IF r.e < ns
        THEN InsLoop(old, i + 1, Append(out, r), ns, ne, v)
        ELSE IF r.s > ne
        THEN out \o <<Rng(ns, ne, v), r>> \o rest
        ELSE
          LET os == MaxOf(ns, r.s)
              oe == MinOf(ne, r.e)
              \* (1) new range before the overlap / (2) old range before the overlap
              o1 == IF ns < os THEN Append(out, Rng(ns, os - 1, v))
                    ELSE IF r.s < os THEN Append(out, Rng(r.s, os - 1, r.v))
                    ELSE out
              \* (3) the overlapping part
              o2 == Append(o1, Rng(os, oe, r.v \cup v))
          IN  \* (4) old range after the overlap
              IF r.e > oe THEN Append(o2, Rng(oe + 1, r.e, r.v)) \o rest
              \* (5) new range after the overlap: next iteration
              ELSE IF ne > oe THEN InsLoop(old, i + 1, o2, oe + 1, ne, v)
              ELSE o2 \o rest

Insert(m, a, b, v) == InsLoop(m, 1, <<>>, a, b, v)

(***************************************************************************)
(* RangeMap::insert_ranges(ranges2, merge): merge of two sorted lists.     *)
(* c1 / c2 are the current (possibly already trimmed) ranges or <<>>,      *)
(* l1 / l2 what the iterators still hold.                                  *)
(***************************************************************************)
Head1(l) == IF l = <<>> THEN <<>> ELSE <<l[1]>>
Tail1(l) == IF l = <<>> THEN <<>> ELSE Tail(l)

RECURSIVE MergeLoop(_, _, _, _, _)
MergeLoop(c1, l1, c2, l2, out) ==
  IF c1 # <<>> /\ c2 # <<>> THEN
    LET a == c1[1]
        b == c2[1]
    IN  IF a.e < b.s THEN MergeLoop(Head1(l1), Tail1(l1), c2, l2, Append(out, a))
        ELSE IF b.e < a.s THEN MergeLoop(c1, l1, Head1(l2), Tail1(l2), Append(out, b))
        ELSE
          LET os == MaxOf(a.s, b.s)
              oe == MinOf(a.e, b.e)
          IN  IF a.s < b.s
              THEN MergeLoop(<<Rng(os, a.e, a.v)>>, l1, c2, l2, Append(out, Rng(a.s, os - 1, a.v)))
              ELSE IF a.s > b.s
              THEN MergeLoop(c1, l1, <<Rng(os, b.e, b.v)>>, l2, Append(out, Rng(b.s, os - 1, b.v)))
              ELSE
                LET out1 == Append(out, Rng(os, oe, a.v \cup b.v))
                IN  IF a.e < b.e
                    THEN MergeLoop(Head1(l1), Tail1(l1), <<Rng(oe + 1, b.e, b.v)>>, l2, out1)
                    ELSE IF a.e > b.e
                    THEN MergeLoop(<<Rng(oe + 1, a.e, a.v)>>, l1, Head1(l2), Tail1(l2), out1)
                    ELSE MergeLoop(Head1(l1), Tail1(l1), Head1(l2), Tail1(l2), out1)
  ELSE IF c1 # <<>> THEN out \o c1 \o l1
  ELSE IF c2 # <<>> THEN out \o c2 \o l2
  ELSE out

InsertRanges(m, m2) == MergeLoop(Head1(m), Tail1(m), Head1(m2), Tail1(m2), <<>>)

(***************************************************************************)
(* RangeMap::remove_ranges(other): sorted-list subtraction.                *)
(***************************************************************************)
RECURSIVE RemLoop(_, _, _, _, _)
RemLoop(c1, l1, c2, l2, out) ==
  IF c1 # <<>> /\ c2 # <<>> THEN
    LET a == c1[1]    \* old range
        b == c2[1]    \* removed range
    IN  IF a.e < b.s THEN RemLoop(Head1(l1), Tail1(l1), c2, l2, Append(out, a))
        ELSE IF b.e < a.s THEN RemLoop(c1, l1, Head1(l2), Tail1(l2), out)
        ELSE
          LET os == MaxOf(a.s, b.s)
              oe == MinOf(a.e, b.e)
          IN  \* (1) overlap starts at the left end of the old range
              IF os = a.s THEN
                IF oe = a.e
                THEN \* the whole old range is removed; the removed range may reach further
                     RemLoop(Head1(l1), Tail1(l1), c2, l2, out)
                ELSE RemLoop(<<Rng(oe + 1, a.e, a.v)>>, l1, Head1(l2), Tail1(l2), out)
              \* (2) overlap ends at the right end of the old range
              ELSE IF oe = a.e
              THEN RemLoop(Head1(l1), Tail1(l1), c2, l2, Append(out, Rng(a.s, os - 1, a.v)))
              \* (3) overlap in the middle of the old range
              ELSE RemLoop(<<Rng(oe + 1, a.e, a.v)>>, l1, c2, l2, Append(out, Rng(a.s, os - 1, a.v)))
  ELSE IF c1 # <<>> THEN out \o c1 \o l1
  ELSE out

RemoveRanges(m, m2) == RemLoop(Head1(m), Tail1(m), Head1(m2), Tail1(m2), <<>>)

=============================================================================

CONSTANTS
  MaxStates = 2
SPECIFICATION MCSpec
INVARIANTS ResultCorrect
PROPERTIES Monotone Terminates
CHECK_DEADLOCK FALSE

------------------------------- MODULE Machine -------------------------------
(***************************************************************************)
(* The generated `Iterator::next` of a lexgen lexer, as a machine over the *)
(* automaton the macro actually compiled (dump hook) and the run-time      *)
(* library registers: the implementation level of the run-time machine.    *)
(*                                                                         *)
(* It is written to be bound, not admired: one step per recorded event     *)
(* (library operation or harness marker, hook H4), in exactly the order    *)
(* the generated code produces them:                                       *)
(*                                                                         *)
(*   enter state q:  [set_accepting_state] next()                          *)
(*     the first rule of q's accept list whose right context holds (or     *)
(*     that has none) is recorded, at most one                             *)
(*   next() = c:     char arm > range guard > `_` arm                      *)
(*     target state: inlined (single predecessor, single arm) -> in place, *)
(*       otherwise __state := its arm number and dispatch again            *)
(*     accepting edge (removed terminal state): context chain, then        *)
(*       reset_accepting_state + the rule's action; if every context       *)
(*       fails, the `_` arm's code                                         *)
(*   next() = None:  __done := true; `$` edge; in state 0 `None`; else fail*)
(*   fail in q:      backtrack flag or accepting -> Lexer::backtrack       *)
(*       Ok: the saved rule's action; Err: reset_match, InvalidToken       *)
(*     otherwise reset_match, __state := 0, __initial_state := 0, error    *)
(*   action of r:    skip: reset_match, continue; simple: return;          *)
(*       `=>`/`=?`: marker, peek, [reset_match], [switch], continue/return *)
(*   continue:  __state := __initial_state, loop (None if __done)          *)
(*   return:    __state := __initial_state, reset_match, item              *)
(*                                                                         *)
(* A recording is accepted only if every event is the one this machine     *)
(* produces next, with the registers it predicts (locations as the fold    *)
(* of Chars!Advance; __state / __initial_state / __done as the generated   *)
(* code writes them).  Together with Bisim.tla (the automaton is the       *)
(* reference automaton) and RefLexer (what the lexer means) this gives a   *)
(* step-by-step account of a real run; a rejected recording is a lead      *)
(* that the harness confirms on observable behaviour before reporting.     *)
(***************************************************************************)
EXTENDS Integers, Sequences, FiniteSets, TLC, Json, IOUtils, Chars

VARIABLES run,     \* [i, p (program id), inp, script, fine]
          P, D,    \* the program and the dump of the real macro for it
          l,       \* index of the next recorded event
          p, msp,  \* characters consumed, start of the current match
          lm,      \* <<>> or <<[ms, p, rule]>>: the saved match
          stx, inix, dnx,   \* predicted __state, __initial_state, __done
          cnt,     \* logged action invocations so far
          pc,      \* control point, see below
          verdict

vars == <<run, P, D, l, p, msp, lm, stx, inix, dnx, cnt, pc, verdict>>

R == INSTANCE Regex WITH Env <- P.env, Builtins <- P.bi

Inputs == JsonDeserialize(IOEnv.VERIF_MACHINE)   \* [pairs: <<[prog, dump]>>, runs: <<run>>]

inp == run.inp
N == Len(inp)
Ext == Append(inp, R!EOI)
Loc(i) == LocSeq(LocAt(inp, i))
LmLocs(x) == IF x = <<>> THEN <<>> ELSE <<Loc(x[1].ms), Loc(x[1].p)>>

St(q) == D.dfa[q + 1]
\* inlined into its predecessor: one predecessor, not an entry state, and a single `match` arm of
\* the predecessor (characters / ranges / `_`) leads to it
ArmsInto(q) ==
  LET pr == St(St(q).preds[1])
      hit(t) == t.s = q
  IN  (IF \E k \in 1..Len(pr.chars) : hit(pr.chars[k].t) THEN 1 ELSE 0)
      + (IF \E k \in 1..Len(pr.ranges) : hit(pr.ranges[k].t) THEN 1 ELSE 0)
      + (IF \E k \in 1..Len(pr.any) : hit(pr.any[k]) THEN 1 ELSE 0)
Inlined(q) == Len(St(q).preds) = 1 /\ ~St(q).initial /\ ArmsInto(q) = 1
Renum(q) == D.renumber[q + 1].renum
\* the DFA state whose `match` arm the register value selects (`_` arm last)
ArmState(v) ==
  LET arms == {i \in 1..Len(D.renumber) : D.renumber[i].arm}
      exact == {i \in arms : D.renumber[i].pat = v}
  IN  IF exact # {} THEN (CHOOSE i \in exact : TRUE) - 1
      ELSE (CHOOSE i \in arms : D.renumber[i].pat = -1) - 1
SwitchArm(set) ==
  LET name == P.sets[set + 1].name
  IN  D.switch_arms[CHOOSE k \in 1..Len(D.switch_arms) : D.switch_arms[k].name = name].idx

\* the right context of rule r holds for the input that follows position pos
CtxHoldsAt(r, pos) ==
  LET c == P.rules[r + 1].ctx IN c = <<>> \/ R!Ends(c[1], Ext, pos) # {}

\* first rule of an accept list whose context holds at pos (0-based rule index) or -1
RECURSIVE FirstOkAt(_, _, _)
FirstOkAt(al, i, pos) ==
  IF i > Len(al) THEN -1
  ELSE IF CtxHoldsAt(al[i].rule, pos) THEN al[i].rule
  ELSE FirstOkAt(al, i + 1, pos)

FirstOk(al, i) == FirstOkAt(al, i, p)

Lookup(q, c) ==
  LET st == St(q) IN
  IF c = -1 THEN st.eoi
  ELSE LET cs == {i \in 1..Len(st.chars) : st.chars[i].c = c} IN
       IF cs # {} THEN <<st.chars[CHOOSE i \in cs : TRUE].t>>
       ELSE LET rs == {i \in 1..Len(st.ranges) : st.ranges[i].lo <= c /\ c <= st.ranges[i].hi} IN
            IF rs # {} THEN <<st.ranges[CHOOSE i \in rs : TRUE].t>>
            ELSE <<>>

Kind(r) == P.rules[r + 1].kind
Logged(r) == Kind(r) \in {"inf", "fal"}
Decision(r) ==
  LET menu == P.rules[r + 1].menu
      ch   == (IF cnt < Len(run.script) THEN run.script[cnt + 1] ELSE 0) % Len(menu)
  IN  menu[ch + 1]

(***************************************************************************)
(* Control points (pc.k):                                                  *)
(*  "top"            loop head: dispatch on __state (or None when done)    *)
(*  "enter" q        start of the code of state q                          *)
(*  "read" q         after the accept recording of q: next() comes         *)
(*  "fail" q         the failure code of state q                           *)
(*  "err1"           after backtrack() Err: reset_match comes              *)
(*  "err2"           after the reset_match of a failure: the error item    *)
(*  "act" r via      about to run rule r's action (via "edge" needs RA)    *)
(*  "peek" r, "dec" r   inside a logged action                             *)
(*  "ret" r kind     after the action decided to return: reset_match, item *)
(*  "item" mark      the item marker is next                               *)
(***************************************************************************)
PC(k, q, r, x) == [k |-> k, q |-> q, r |-> r, x |-> x]

E == run.fine[l]

Post(e) == e.me = Loc(p') /\ e.ms = Loc(msp') /\ e.lm = LmLocs(lm')
RegsAre(e, s, i, d) == e.st = s /\ e.ini = i /\ e.dn = d

\* Where control goes after a transition target t (record [s, acc]) was selected in state q
\* with the code of q's `_` arm as fallback; returns a pc (no event consumed).
\* pos: characters consumed once the event being processed has happened
AfterTarget(q, t, isEoi, pos) ==
  IF t.s >= 0
  THEN PC("enter", t.s, 0, IF Inlined(t.s) THEN "inl" ELSE "disp")
  ELSE LET r == FirstOkAt(t.acc, 1, pos) IN
       IF r >= 0 THEN PC("act", q, r, "edge")
       ELSE PC("deflt", q, 0, IF isEoi THEN "eoi" ELSE "chr")

\* the `_` arm of state q: any-transition or fail (for end-of-input: None in state 0, else fail)
RECURSIVE Default(_, _)
Default(q, how) ==
  IF how = "eoi"
  THEN IF q = 0 THEN PC("none", 0, 0, "") ELSE PC("fail", q, 0, "")
  ELSE LET a == St(q).any IN
       IF a = <<>> THEN PC("fail", q, 0, "")
       ELSE IF a[1].s >= 0 THEN PC("enter", a[1].s, 0, IF Inlined(a[1].s) THEN "inl" ELSE "disp")
       ELSE LET r == FirstOk(a[1].acc, 1) IN
            IF r >= 0 THEN PC("act", q, r, "edge") ELSE PC("fail", q, 0, "")

\* resolve control points that consume no event
RECURSIVE Resolve(_)
Resolve(c) ==
  CASE c.k = "deflt" -> Resolve(Default(c.q, c.x))
    [] c.k = "enter" ->
         \* recording of an accepting state happens first; otherwise straight to next()
         IF FirstOk(St(c.q).acc, 1) >= 0 THEN PC("setacc", c.q, FirstOk(St(c.q).acc, 1), c.x)
         ELSE PC("read", c.q, 0, c.x)
    [] OTHER -> c

Init ==
  /\ LET inputs == Inputs IN
       \E i \in 1..Len(inputs.runs) :
         /\ run = inputs.runs[i]
         /\ LET pr == inputs.pairs[CHOOSE k \in 1..Len(inputs.pairs) : inputs.pairs[k].prog.id = inputs.runs[i].p]
            IN  P = pr.prog /\ D = pr.dump
  /\ l = 1 /\ p = 0 /\ msp = 0 /\ lm = <<>> /\ stx = 0 /\ inix = 0 /\ dnx = FALSE /\ cnt = 0
  /\ pc = PC("top", 0, 0, "")
  /\ verdict = "run"

\* the register a state entered by dispatch must show: written before the loop came round
StateReg(c) == IF c.k \in {"setacc", "read"} /\ c.x = "disp" THEN Renum(c.q) ELSE stx

\* the control point with the event-less steps (loop head, dispatch, `_` arm selection) resolved
Cur == IF pc.k = "top"
       THEN (IF dnx THEN PC("none", 0, 0, "") ELSE Resolve(PC("enter", ArmState(stx), 0, "inl")))
       ELSE Resolve(pc)

\* set_accepting_state in state q for rule r
EvSetAcc ==
  /\ Cur.k = "setacc" /\ E.op = "SA"
  /\ lm' = <<[ms |-> msp, p |-> p, rule |-> Cur.r]>>
  /\ stx' = StateReg(Cur)
  /\ RegsAre(E, stx', inix, dnx)
  /\ pc' = PC("read", Cur.q, 0, "inl")
  /\ UNCHANGED <<p, msp, inix, dnx, cnt>>

\* next() in state q
EvNext ==
  /\ Cur.k = "read" /\ E.op = "N"
  /\ RegsAre(E, StateReg(Cur), inix, dnx)
  /\ IF p < N
     THEN /\ E.c = inp[p + 1] /\ p' = p + 1
          /\ LET t == Lookup(Cur.q, inp[p + 1]) IN
               pc' = IF t = <<>> THEN PC("deflt", Cur.q, 0, "chr") ELSE AfterTarget(Cur.q, t[1], FALSE, p + 1)
          /\ dnx' = dnx /\ stx' = StateReg(Cur)
     ELSE /\ E.c = -1 /\ p' = p
          /\ dnx' = TRUE
          /\ LET t == Lookup(Cur.q, -1) IN
               IF t # <<>> /\ t[1].s >= 0
               THEN \* `$` edge to a state that is kept: __state := its number; the loop head then
                    \* sees __done and returns None
                    stx' = Renum(t[1].s) /\ pc' = PC("top", 0, 0, "")
               ELSE /\ stx' = StateReg(Cur)
                    /\ pc' = IF t = <<>> THEN PC("deflt", Cur.q, 0, "eoi") ELSE AfterTarget(Cur.q, t[1], TRUE, p)
  /\ UNCHANGED <<msp, lm, inix, cnt>>

\* failure code of state q
EvBacktrackOk ==
  /\ Cur.k = "fail" /\ (St(Cur.q).backtrack \/ Len(St(Cur.q).acc) > 0)
  /\ E.op = "BO" /\ lm # <<>>
  /\ p' = lm[1].p /\ msp' = lm[1].ms /\ lm' = <<>> /\ dnx' = FALSE
  /\ RegsAre(E, stx, inix, FALSE)
  /\ pc' = PC("act", Cur.q, lm[1].rule, "rewind")
  /\ UNCHANGED <<stx, inix, cnt>>

EvBacktrackErr ==
  /\ Cur.k = "fail" /\ (St(Cur.q).backtrack \/ Len(St(Cur.q).acc) > 0)
  /\ E.op = "BE" /\ lm = <<>>
  /\ stx' = 0 /\ inix' = 0
  /\ RegsAre(E, 0, 0, dnx)
  /\ pc' = PC("err2", 0, 0, "")
  /\ UNCHANGED <<p, msp, lm, dnx, cnt>>

\* reset_match of a failure (after backtrack Err, or the direct failure of a state that cannot
\* have passed an accepting state: registers are reset after it)
EvFailReset ==
  /\ \/ Cur.k = "err2"
     \/ (Cur.k = "fail" /\ ~(St(Cur.q).backtrack \/ Len(St(Cur.q).acc) > 0))
  /\ E.op = "RM"
  /\ msp' = p
  /\ RegsAre(E, stx, inix, dnx)
  /\ stx' = 0 /\ inix' = 0
  /\ pc' = PC("item", 0, 0, "3")
  /\ UNCHANGED <<p, lm, dnx, cnt>>

\* actions
EvResetAcc ==
  /\ Cur.k = "act" /\ Cur.x = "edge" /\ E.op = "RA"
  /\ lm' = <<>>
  /\ RegsAre(E, stx, inix, dnx)
  /\ pc' = PC("act", Cur.q, Cur.r, "run")
  /\ UNCHANGED <<p, msp, stx, inix, dnx, cnt>>

ActReady == Cur.k = "act" /\ Cur.x \in {"run", "rewind"}

\* `re,`: reset_match; continue
EvSkip ==
  /\ ActReady /\ Kind(Cur.r) = "skip" /\ E.op = "RM"
  /\ msp' = p
  /\ RegsAre(E, stx, inix, dnx)
  /\ stx' = inix
  /\ pc' = PC("top", 0, 0, "")
  /\ UNCHANGED <<p, lm, inix, dnx, cnt>>

\* `re = t`: return: __state := __initial_state; reset_match; item
EvSimple ==
  /\ ActReady /\ Kind(Cur.r) = "simple" /\ E.op = "RM"
  /\ msp' = p /\ stx' = inix
  /\ RegsAre(E, inix, inix, dnx)
  /\ pc' = PC("item", 0, Cur.r, "2")
  /\ UNCHANGED <<p, lm, inix, dnx, cnt>>

\* `=>` / `=?`: the harness' action starts (marker), peeks, decides
EvActStart ==
  /\ ActReady /\ Logged(Cur.r) /\ E.op = "M" /\ E.mk = <<1, Cur.r>>
  /\ RegsAre(E, stx, inix, dnx)
  /\ lm = <<>>                    \* no stale saved match when an action runs
  /\ pc' = PC("peek", 0, Cur.r, "")
  /\ UNCHANGED <<p, msp, lm, stx, inix, dnx, cnt>>

EvPeek ==
  /\ Cur.k = "peek" /\ E.op = "P"
  /\ E.c = (IF p < N THEN inp[p + 1] ELSE -1)
  /\ RegsAre(E, stx, inix, dnx)
  /\ pc' = PC("dec", 0, Cur.r, "")
  /\ UNCHANGED <<p, msp, lm, stx, inix, dnx, cnt>>

\* after the decision: optional reset_match, optional switch, continue or return
AfterDecision(r, d) ==
  LET sw  == d.sw >= 0
      st1 == IF sw THEN SwitchArm(d.sw) ELSE stx
      in1 == IF sw THEN SwitchArm(d.sw) ELSE inix
  IN  [st |-> in1, ini |-> in1, ret |-> d.ret]   \* both continue and return set __state := __initial_state

EvDecReset ==
  /\ Cur.k = "dec" /\ Decision(Cur.r).reset /\ E.op = "RM"
  /\ msp' = p
  /\ RegsAre(E, stx, inix, dnx)
  /\ pc' = PC("dec2", 0, Cur.r, "")
  /\ UNCHANGED <<p, lm, stx, inix, dnx, cnt>>

DecDone == (Cur.k = "dec" /\ ~Decision(Cur.r).reset) \/ Cur.k = "dec2"

\* the decision is "continue": nothing more is recorded for this action
ContinuePc ==
  IF DecDone /\ Decision(Cur.r).ret = 0
  THEN LET a == AfterDecision(Cur.r, Decision(Cur.r)) IN [on |-> TRUE, st |-> a.st, ini |-> a.ini]
  ELSE [on |-> FALSE, st |-> stx, ini |-> inix]

\* the decision is "return": reset_match then the item
EvReturnReset ==
  /\ DecDone /\ Decision(Cur.r).ret # 0 /\ E.op = "RM"
  /\ LET a == AfterDecision(Cur.r, Decision(Cur.r)) IN
       /\ stx' = a.st /\ inix' = a.ini
       /\ RegsAre(E, a.st, a.ini, dnx)
       /\ pc' = PC("item", 0, Cur.r, IF a.ret = 1 THEN "2" ELSE "4")
  /\ msp' = p /\ cnt' = cnt + 1
  /\ UNCHANGED <<p, lm, dnx>>

\* item markers
EvItem ==
  /\ Cur.k = "item" /\ E.op = "M"
  /\ E.mk[1] = (CASE Cur.x = "2" -> 2 [] Cur.x = "3" -> 3 [] Cur.x = "4" -> 4)
  /\ (Cur.x \in {"2", "4"} => E.mk[2] = Cur.r)
  /\ RegsAre(E, stx, inix, dnx)
  /\ lm = <<>> /\ msp = p
  /\ pc' = PC("top", 0, 0, "")
  /\ UNCHANGED <<p, msp, lm, stx, inix, dnx, cnt>>

EvNone ==
  /\ Cur.k = "none" /\ E.op = "M" /\ E.mk[1] = 5
  /\ dnx
  /\ RegsAre(E, stx, inix, TRUE)
  /\ pc' = PC("top", 0, 0, "")
  /\ UNCHANGED <<p, msp, lm, stx, inix, dnx, cnt>>

\* A "continue" decision consumes no event of its own: it is folded into whatever comes next.
\* To keep one step per event, the continue is applied first (registers, counter, loop head)
\* and the event is then matched from the loop head.
ApplyContinue ==
  /\ ContinuePc.on
  /\ stx' = ContinuePc.st /\ inix' = ContinuePc.ini /\ cnt' = cnt + 1
  /\ pc' = PC("top", 0, 0, "")
  /\ UNCHANGED <<run, P, D, l, p, msp, lm, dnx, verdict>>

Event ==
  /\ verdict = "run" /\ l <= Len(run.fine) /\ ~ContinuePc.on
  /\ \/ EvSetAcc \/ EvNext \/ EvBacktrackOk \/ EvBacktrackErr \/ EvFailReset \/ EvResetAcc
     \/ EvSkip \/ EvSimple \/ EvActStart \/ EvPeek \/ EvDecReset \/ EvReturnReset \/ EvItem \/ EvNone
  /\ (E.op # "M" => Post(E))
  /\ l' = l + 1
  /\ UNCHANGED <<run, P, D, verdict>>

Accept ==
  /\ verdict = "run" /\ l = Len(run.fine) + 1 /\ ~ContinuePc.on
  /\ verdict' = "ok"
  /\ UNCHANGED <<run, P, D, l, p, msp, lm, stx, inix, dnx, cnt, pc>>

Reject ==
  /\ verdict = "run" /\ l <= Len(run.fine) /\ ~ContinuePc.on
  /\ ~ENABLED Event
  /\ verdict' = "rej"
  /\ UNCHANGED <<run, P, D, l, p, msp, lm, stx, inix, dnx, cnt, pc>>

Next == ApplyContinue \/ Event \/ Accept \/ Reject

Report ==
  /\ verdict = "ok" => PrintT(<<"MACHOK", ToJson([i |-> run.i])>>)
  /\ verdict = "rej" => PrintT(<<"MACHREJ", ToJson([i |-> run.i, at |-> l, consumed |-> p, op |-> E.op,
                                                     pc |-> Cur.k, q |-> Cur.q])>>)
=============================================================================

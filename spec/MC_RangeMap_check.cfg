CONSTANTS
  MaxPoint = 3
  Values = {1, 2}
INIT Init
NEXT Next
INVARIANTS Inv StepCorrect
CHECK_DEADLOCK FALSE

----------------------------- MODULE MC_NamesRec -----------------------------
(* Binding of Names.tla: the items recorded from real expansions (lexer_verif! hook) must be
   exactly the ones the naming scheme predicts. *)
EXTENDS Names

Recorded == ndJsonDeserialize(IOEnv.VERIF_NAMES)    \* [name, nact, nctx, ntab, items: sorted seq]
VARIABLE r
RInit == LET rs == Recorded IN r \in {rs[i] : i \in 1..Len(rs)}
RNext == UNCHANGED r
AsSet(s) == {s[i] : i \in 1..Len(s)}
RecordedMatches ==
  AsSet(r.items) = Items(r.name, r.nact, r.nctx, r.ntab)
    => PrintT(<<"NAMESOK", ToJson([name |-> r.name])>>)
=============================================================================

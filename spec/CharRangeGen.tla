---------------------------- MODULE CharRangeGen ----------------------------
(***************************************************************************)
(* The built-in table generator (crates/char_range_gen): one pass over all *)
(* code points 0..MaxC, skipping the non-scalar gap GapLo..GapHi, with an   *)
(* "open range" register.  One action per code point, as in the code.      *)
(*                                                                         *)
(* The universe is abstract: each abstract point stands for a segment of   *)
(* real code points ({0}, [1..3FF], [400..D7FE], {D7FF}, the surrogate gap,*)
(* {E000}, [E001..FFFF], [10000..10FFFE], {10FFFF}); predicates that are   *)
(* constant on segments are exactly those "defined by a few boundaries     *)
(* placed at 0, around the surrogate gap and at char::MAX".  TLC runs the  *)
(* machine for EVERY such predicate, checks the result at termination and  *)
(* prints it; the harness runs the real generator on the concretised       *)
(* predicate and compares.                                                 *)
(***************************************************************************)
EXTENDS Integers, Sequences, FiniteSets, TLC, Json

CONSTANTS MaxC, GapLo, GapHi

Points  == 0..MaxC
Gap     == GapLo..GapHi
Scalars == Points \ Gap

VARIABLES P,     \* the predicate, as the set of scalars satisfying it
          i,     \* next code point to look at
          cur,   \* <<>> or <<start, last>>: the open range and the last scalar seen in it
          out    \* ranges emitted so far

vars == <<P, i, cur, out>>

Init == P \in SUBSET Scalars /\ i = 0 /\ cur = <<>> /\ out = <<>>

\* `char::try_from(i)` fails: continue
SkipGap == i <= MaxC /\ i \in Gap /\ i' = i + 1 /\ UNCHANGED <<P, cur, out>>

\* f(c) holds: open a range or extend the open one
Holds ==
  /\ i <= MaxC /\ i \notin Gap /\ i \in P
  /\ cur' = IF cur = <<>> THEN <<i, i>> ELSE <<cur[1], i>>
  /\ i' = i + 1 /\ UNCHANGED <<P, out>>

\* f(c) does not hold: close the open range, if any, at the last scalar that satisfied f
Fails ==
  /\ i <= MaxC /\ i \notin Gap /\ i \notin P
  /\ IF cur = <<>> THEN UNCHANGED <<cur, out>>
     ELSE out' = Append(out, cur) /\ cur' = <<>>
  /\ i' = i + 1 /\ UNCHANGED P

\* after the loop: a range still open (it reaches MaxC) is flushed
Flush ==
  /\ i = MaxC + 1
  /\ out' = IF cur = <<>> THEN out ELSE Append(out, cur)
  /\ cur' = <<>> /\ i' = MaxC + 2 /\ UNCHANGED P

Next == SkipGap \/ Holds \/ Fails \/ Flush
Spec == Init /\ [][Next]_vars /\ WF_vars(Next)

Done == i = MaxC + 2

(***************************************************************************)
(* The property (C18).                                                     *)
(***************************************************************************)
Covered(rs) == UNION {{c \in Scalars : rs[k][1] <= c /\ c <= rs[k][2]} : k \in 1..Len(rs)}

\* next / previous scalar value (adjacency is judged on scalar values)
NextScalar(c) == IF c + 1 \in Gap THEN GapHi + 1 ELSE c + 1

Exact(rs)        == Covered(rs) = P
ScalarEnds(rs)   == \A k \in 1..Len(rs) : rs[k][1] \in Scalars /\ rs[k][2] \in Scalars /\ rs[k][1] <= rs[k][2]
SortedDisjoint(rs) == \A k \in 1..(Len(rs) - 1) : rs[k][2] < rs[k + 1][1]
\* non-adjacent as numbers (what the macro's range map assumes of a table)
NonAdjacent(rs)  == \A k \in 1..(Len(rs) - 1) : rs[k][2] + 1 < rs[k + 1][1]
\* maximal: two consecutive ranges are separated by a scalar value that does not satisfy P
\* (U+D7FF and U+E000 are consecutive scalar values: a run across the gap is ONE range)
Maximal(rs)      == \A k \in 1..(Len(rs) - 1) : NextScalar(rs[k][2]) < rs[k + 1][1]

Correct(rs) == Exact(rs) /\ ScalarEnds(rs) /\ SortedDisjoint(rs) /\ NonAdjacent(rs) /\ Maximal(rs)

ResultCorrect == Done => Correct(out)
Terminates == <>Done

RECURSIVE SetToSeq(_)
SetToSeq(S) == IF S = {} THEN <<>>
               ELSE LET m == CHOOSE x \in S : \A y \in S : x <= y IN <<m>> \o SetToSeq(S \ {m})
PrintResult == Done => PrintT(<<"CRG", ToJson([p |-> SetToSeq(P), out |-> out])>>)
=============================================================================

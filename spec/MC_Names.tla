------------------------------ MODULE MC_Names ------------------------------
EXTENDS Names

LexerNames == {"Lexer", "Lexer2", "L", "Tok"}

VARIABLES a, b      \* two lexers: [name, nact, nctx, ntab]
vars == <<a, b>>

Shapes == {[name |-> n, nact |-> x, nctx |-> y, ntab |-> z] : n \in LexerNames, x \in 0..2, y \in 0..2, z \in 0..2}

Init == a \in Shapes /\ b \in Shapes /\ a.name # b.name
Next == UNCHANGED vars

Disjoint == Items(a.name, a.nact, a.nctx, a.ntab) \cap Items(b.name, b.nact, b.nctx, b.ntab) = {}
=============================================================================

------------------------------- MODULE Bisim -------------------------------
(***************************************************************************)
(* Artifact validation (DESIGN 2.1 (D)): the automata the real macro       *)
(* compiled (dumped by the lexgen_verif hooks while it expanded the lexers)*)
(* are compared with the reference automaton of the definition, the        *)
(* Antimirov derivative automaton of Regex.tla, by exploring the product:  *)
(* a state is <<compiled state, set of derivative terms>>; TLC visits      *)
(* every reachable pair, so the comparison holds for ALL strings, not for  *)
(* strings up to a length.  Symbols are the boundary representatives of    *)
(* the definition (every literal and range end point, +-1) and             *)
(* end-of-input.                                                           *)
(*                                                                         *)
(* Checked in every reachable pair:                                        *)
(*  - AcceptSame: the compiled state accepts exactly the rules that have a *)
(*    nullable term, in rule order, each with a context iff the rule has   *)
(*    one (C01 priority, C02 language, C04);                               *)
(*  - MovesSame: it has a transition on a symbol iff some term has a       *)
(*    derivative (C02: nothing more, nothing less);                        *)
(* and for the simplified automaton started from every rule set's entry    *)
(* state (C03: the entry map survives the index shifts), and for every     *)
(* right-context automaton against its regex (C04).                        *)
(***************************************************************************)
EXTENDS Integers, Sequences, FiniteSets, TLC, Json, IOUtils

VARIABLES path,   \* symbols read so far (hidden from the state fingerprint by VIEW)
          P,      \* the program (definition), as in RefLexer
          D,      \* the dump of the real macro for it
          mode,   \* "pre": automaton before simplification, "post": after, "ctx": a context automaton
          which,  \* rule set index (pre/post) or context index (ctx), 1-based
          cur,    \* compiled state: [s |-> index or -1, acc |-> accept list of a removed terminal state]
          T       \* reference state: set of [r, t]

vars == <<path, P, D, mode, which, cur, T>>
View == <<P.id, mode, which, cur, T>>

R == INSTANCE Regex WITH Env <- P.env, Builtins <- P.bi

Pairs == JsonDeserialize(IOEnv.VERIF_BISIM)     \* sequence of [prog, dump]

Aut == CASE mode = "pre"  -> D.dfa_pre
         [] mode = "post" -> D.dfa
         [] mode = "ctx"  -> D.ctx[which]

Symbols == {P.reps[i] : i \in 1..Len(P.reps)} \cup {R!EOI}

RulesOf(set) == {P.sets[set].rules[i] + 1 : i \in 1..Len(P.sets[set].rules)}
CtxRules == {r \in 1..Len(P.rules) : P.rules[r].ctx # <<>>}
\* the k-th context belongs to the k-th rule (in declaration order) that has one
RECURSIVE NthCtxRule(_, _)
NthCtxRule(k, from) ==
  LET r == CHOOSE x \in CtxRules : x >= from /\ \A y \in CtxRules : y >= from => x <= y
  IN  IF k = 1 THEN r ELSE NthCtxRule(k - 1, r + 1)

EntryIdx(m, set) ==
  LET name == P.sets[set].name
      tab  == IF m = "pre" THEN D.entry_pre ELSE D.entry
  IN  IF Len(tab) = 0 THEN 0    \* definitions without `rule` blocks: state 0
      ELSE tab[CHOOSE i \in 1..Len(tab) : tab[i].name = name].idx

St(c) == Aut[c.s + 1]

Lookup(c, s) ==
  IF c.s = -1 THEN <<>>
  ELSE LET st == St(c) IN
       IF s = R!EOI THEN st.eoi
       ELSE LET cs == {i \in 1..Len(st.chars) : st.chars[i].c = s} IN
            IF cs # {} THEN <<st.chars[CHOOSE i \in cs : TRUE].t>>
            ELSE LET rs == {i \in 1..Len(st.ranges) : st.ranges[i].lo <= s /\ s <= st.ranges[i].hi} IN
                 IF rs # {} THEN <<st.ranges[CHOOSE i \in rs : TRUE].t>>
                 ELSE st.any

AccList(c) == IF c.s = -1 THEN c.acc ELSE St(c).acc

StepTerms(S, s) == UNION {{[r |-> x.r, t |-> t2] : t2 \in R!PD(x.t, s)} : x \in S}
AccRules(S) == {x.r : x \in {y \in S : R!Nullable(y.t)}}

RECURSIVE SortedSeq(_)
SortedSeq(S) == IF S = {} THEN <<>>
                ELSE LET m == CHOOSE x \in S : \A y \in S : x <= y IN <<m>> \o SortedSeq(S \ {m})

Init ==
  /\ LET ps == Pairs IN \E i \in 1..Len(ps) : P = ps[i].prog /\ D = ps[i].dump
  /\ path = <<>>
  /\ \/ /\ mode \in {"pre", "post"}
        /\ which \in 1..Len(P.sets)
        /\ cur = [s |-> EntryIdx(mode, which), acc |-> <<>>]
        /\ T = {[r |-> r, t |-> P.rules[r].re] : r \in RulesOf(which)}
     \/ /\ mode = "ctx"
        /\ which \in 1..Len(D.ctx)
        /\ cur = [s |-> 0, acc |-> <<>>]
        /\ T = {[r |-> 0, t |-> P.rules[NthCtxRule(which, 1)].ctx[1]]}

Next ==
  \E s \in Symbols :
    /\ Lookup(cur, s) # <<>>
    /\ cur' = Lookup(cur, s)[1]
    /\ T' = StepTerms(T, s)
    /\ path' = Append(path, s)
    /\ UNCHANGED <<P, D, mode, which>>

\* the compiled state accepts the rules with a nullable term, in rule order
AcceptSame ==
  LET al == AccList(cur) IN
  IF mode = "ctx"
  THEN (Len(al) > 0) <=> (AccRules(T) # {})
  ELSE /\ [i \in 1..Len(al) |-> al[i].rule + 1] = SortedSeq(AccRules(T))
       /\ \A i \in 1..Len(al) : (al[i].ctx >= 0) <=> (al[i].rule + 1 \in CtxRules)

\* it moves on a symbol exactly when the reference does
MovesSame == \A s \in Symbols : (Lookup(cur, s) # <<>>) <=> (StepTerms(T, s) # {})

\* entry states of the simplified automaton are flagged `initial` (they keep their own arm)
EntryInitial == (mode = "post" /\ cur.s >= 0 /\ cur.s = EntryIdx("post", which)) => St(cur).initial

(***************************************************************************)
(* Index maps of code generation (C03): checked once per dump.             *)
(***************************************************************************)
Arms(d) == {i \in 1..Len(d.renumber) : d.renumber[i].arm}
ArmsInjective(d) ==
  \A i, j \in Arms(d) : i # j => d.renumber[i].renum # d.renumber[j].renum
\* every arm pattern is its number, except that the largest number is the catch-all `_`
ArmPatterns(d) ==
  LET mx == CHOOSE m \in {d.renumber[i].renum : i \in Arms(d)} :
              \A i \in Arms(d) : d.renumber[i].renum <= m
  IN  \A i \in Arms(d) : d.renumber[i].pat = (IF d.renumber[i].renum = mx THEN -1 ELSE d.renumber[i].renum)
\* the switch arm of a rule set is the arm number of its entry state, which has an arm
SwitchArms(d) ==
  \A k \in 1..Len(d.switch_arms) :
    LET name == d.switch_arms[k].name
        e    == d.entry[CHOOSE i \in 1..Len(d.entry) : d.entry[i].name = name].idx
    IN  d.renumber[e + 1].arm /\ d.renumber[e + 1].renum = d.switch_arms[k].idx
\* A state is inlined into its predecessor when it has exactly one predecessor, is not an entry
\* state, and exactly one `match` arm of the predecessor leads to it (the predecessor has one arm
\* for all its character transitions to a state, one for all its range transitions, one for `_`);
\* all other states have their own arm.
ArmsInto(d, i) ==       \* i: 1-based index of a state with exactly one predecessor
  LET pr == d.dfa[d.dfa[i].preds[1] + 1]
      hit(t) == t.s = i - 1
  IN  (IF \E k \in 1..Len(pr.chars) : hit(pr.chars[k].t) THEN 1 ELSE 0)
      + (IF \E k \in 1..Len(pr.ranges) : hit(pr.ranges[k].t) THEN 1 ELSE 0)
      + (IF \E k \in 1..Len(pr.any) : hit(pr.any[k]) THEN 1 ELSE 0)
IsInlined(d, i) == Len(d.dfa[i].preds) = 1 /\ ~d.dfa[i].initial /\ ArmsInto(d, i) = 1
InlineRule(d) == \A i \in 1..Len(d.dfa) : d.renumber[i].arm = ~IsInlined(d, i)

(***************************************************************************)
(* dfa/simplify.rs as a function of the automaton before it: states        *)
(* without transitions that are not initial are removed, edges into them   *)
(* become accepting edges carrying their accept list, the remaining        *)
(* indices (and the rule-set entry indices) shift down by the number of    *)
(* removed states below them.  The real output must be exactly this.       *)
(***************************************************************************)
NoTrans(st) == Len(st.chars) = 0 /\ Len(st.ranges) = 0 /\ Len(st.any) = 0 /\ Len(st.eoi) = 0
RemovedSet(pre) == {i \in 1..Len(pre) : NoTrans(pre[i]) /\ ~pre[i].initial}     \* 1-based
ShiftIdx(pre, z) == z - Cardinality({r \in RemovedSet(pre) : r - 1 < z})          \* z 0-based
MapT(pre, t) == IF (t.s + 1) \in RemovedSet(pre)
                THEN [s |-> -1, acc |-> pre[t.s + 1].acc]
                ELSE [s |-> ShiftIdx(pre, t.s), acc |-> <<>>]
Kept(pre) == SortedSeq({i \in 1..Len(pre) : i \notin RemovedSet(pre)})
SimplifiedState(pre, st) ==
  [initial   |-> st.initial,
   chars     |-> [i \in 1..Len(st.chars) |-> [c |-> st.chars[i].c, t |-> MapT(pre, st.chars[i].t)]],
   ranges    |-> [i \in 1..Len(st.ranges) |-> [lo |-> st.ranges[i].lo, hi |-> st.ranges[i].hi, t |-> MapT(pre, st.ranges[i].t)]],
   any       |-> [i \in 1..Len(st.any) |-> MapT(pre, st.any[i])],
   eoi       |-> [i \in 1..Len(st.eoi) |-> MapT(pre, st.eoi[i])],
   acc       |-> st.acc,
   preds     |-> SortedSeq({ShiftIdx(pre, st.preds[i]) : i \in 1..Len(st.preds)}),
   backtrack |-> st.backtrack]
SimplifyOK(d) ==
  LET pre == d.dfa_pre
      kept == Kept(pre)
  IN  /\ Len(d.dfa) = Len(kept)
      /\ \A k \in 1..Len(kept) : d.dfa[k] = SimplifiedState(pre, pre[kept[k]])
      /\ \A k \in 1..Len(d.entry) :
           \E j \in 1..Len(d.entry_pre) :
             /\ d.entry_pre[j].name = d.entry[k].name
             /\ d.entry[k].idx = ShiftIdx(pre, d.entry_pre[j].idx)

\* codegen/ctx.rs renumber_state: shift by the number of inlined states below
RenumberOK(d) ==
  \A i \in 1..Len(d.dfa) :
    d.renumber[i].renum =
      (i - 1) - Cardinality({j \in 1..(i - 1) : IsInlined(d, j)})

IndexMaps == ArmsInjective(D) /\ ArmPatterns(D) /\ SwitchArms(D) /\ InlineRule(D)
             /\ SimplifyOK(D) /\ RenumberOK(D)

\* Disagreements are reported (with the path that leads to the pair) rather than stopping TLC:
\* the harness turns each into a witness input and confirms it on the real lexer.
Report ==
  /\ (~(AcceptSame /\ MovesSame /\ EntryInitial)) =>
        PrintT(<<"BAD", ToJson([p |-> P.id, mode |-> mode, which |-> which, path |-> path, state |-> cur.s,
                                acc |-> AcceptSame, moves |-> MovesSame, entry |-> EntryInitial])>>)
  /\ (path = <<>> /\ mode = "post" /\ which = 1 /\ ~IndexMaps) =>
        PrintT(<<"BADMAP", ToJson([p |-> P.id, inj |-> ArmsInjective(D), pat |-> ArmPatterns(D),
                                   sw |-> SwitchArms(D), inl |-> InlineRule(D),
                                   simp |-> SimplifyOK(D), ren |-> RenumberOK(D)])>>)
  /\ (path = <<>> /\ mode = "post" /\ which = 1) => PrintT(<<"SEEN", ToJson([p |-> P.id])>>)
=============================================================================

------------------------------ MODULE RefLexer ------------------------------
(***************************************************************************)
(* What a lexgen lexer MEANS: the property-level (reference) specification *)
(* of the generated lexer's observable behaviour.  Nothing here mentions   *)
(* NFAs, DFAs, rewinding or registers; it is the formal reading of the     *)
(* README and of properties C01, C03-C10, C14, C15.                        *)
(*                                                                         *)
(* A program (one element of Progs) is a record                            *)
(*   [id, sigma, k, inputs, env, sets: <<[name, rules: <<rule index>>]>>,  *)
(*    rules: <<[re, ctx: <<>> or <<re>>, kind, menu: <<decision>>]>>]      *)
(* kind is "skip" (`re,`), "simple" (`re = t`), "inf" (`=>`), "fal" (`=?`).*)
(* A decision is [reset, sw, ret]: call reset_match() first or not; switch *)
(* to rule set sw (0-based, -1: none); ret 0 continue, 1 return a token,   *)
(* 2 return Err (fallible rules only).  Rule and rule-set indices in       *)
(* events are 0-based (as in the implementation); inside the spec they     *)
(* are 1-based sequence indices.                                           *)
(*                                                                         *)
(* One step of the spec = one match attempt at the current position (or    *)
(* one `None` item).  The attempt is specified twice: declaratively        *)
(* (Cands/BestD over Regex!Ends: "the longest prefix some rule matches,    *)
(* then the first such rule") and operationally (Walk over the derivative  *)
(* automaton, which also says how far a failing scan reads).  TLC checks   *)
(* that both agree in every reachable state (OracleConsistent).            *)
(***************************************************************************)
EXTENDS Naturals, Integers, Sequences, FiniteSets, Chars

CONSTANTS Progs   \* sequence of programs (only read by Init)

VARIABLES P,      \* the program (constant along a behaviour)
          inp,    \* the input (sequence of scalar values)
          pos,    \* characters consumed so far
          ms,     \* start (in characters) of the current match
          rs,     \* active rule set (1 = Init)
          fin,    \* end-of-input has been acted upon
          cnt,    \* number of logged action invocations = user-state counter
          nones,  \* how many None items have been produced
          script, \* decisions taken so far (0-based menu indices)
          guide,  \* decisions offered to the actions (a prefix may be fixed; beyond it all are explored)
          hist    \* observable events so far

vars == <<P, inp, pos, ms, rs, fin, cnt, nones, script, guide, hist>>

R == INSTANCE Regex WITH Env <- P.env, Builtins <- P.bi

N == Len(inp)
Ext == Append(inp, R!EOI)

Min(S) == CHOOSE x \in S : \A y \in S : x <= y
Max(S) == CHOOSE x \in S : \A y \in S : x >= y
MinOf(a, b) == IF a <= b THEN a ELSE b

RulesOf(set) == {P.sets[set].rules[i] + 1 : i \in 1..Len(P.sets[set].rules)}

Loc(i) == LocSeq(LocAt(inp, i))

NoBest == [rule |-> 0, end |-> 0]

(***************************************************************************)
(* Right context: some prefix of what follows position j (end-of-input     *)
(* visible) is in the context's language.  j = N+1 means the lexeme itself *)
(* was matched through `$`; nothing but end-of-input follows then.         *)
(***************************************************************************)
CtxOk(r, j) ==
  LET c == P.rules[r].ctx
  IN  c = <<>> \/ R!Ends(c[1], Ext, MinOf(j, N)) # {}

(***************************************************************************)
(* Declarative selection rule (C01, C04, C05).                             *)
(***************************************************************************)
\* ends: function rule |-> set of end positions of that rule's regex from `from`.
RuleEnds(set, from) == [r \in RulesOf(set) |-> R!Ends(P.rules[r].re, Ext, from)]

Cands(ends, from) ==
  UNION { {[rule |-> r, end |-> j] : j \in {e \in ends[r] : e > from /\ CtxOk(r, e)}}
          : r \in DOMAIN ends }

BestOf(ends, from) ==
  LET cs == Cands(ends, from)
  IN  IF cs = {} THEN NoBest
      ELSE LET e == Max({c.end : c \in cs})
           IN  [rule |-> Min({c.rule : c \in {d \in cs : d.end = e}}), end |-> e]

BestD(set, from) == BestOf(RuleEnds(set, from), from)

(***************************************************************************)
(* How far a scan reads (C08: "its longest viable prefix plus the          *)
(* offending character when one was read").  Positions: j <= N is "j       *)
(* characters read", N+1 is "end-of-input read".  A scan reads on while    *)
(* what it has read is a viable prefix of some rule; having read a         *)
(* non-empty prefix that cannot be extended it stops without reading.      *)
(***************************************************************************)
OpenAll(set, from) == UNION {R!Open(P.rules[r].re, Ext, from) : r \in RulesOf(set)}

RECURSIVE Scan(_, _, _)
Scan(from, v, j) ==
  IF j = N + 1 \/ (j > from /\ j \notin v.open)
  THEN [stop |-> MinOf(j, N), hitEOI |-> j = N + 1]
  ELSE IF (j + 1) \in (v.open \cup v.ends)
       THEN Scan(from, v, j + 1)
       ELSE [stop |-> IF j = N THEN N ELSE j + 1, hitEOI |-> j = N]

Attempt ==
  LET ends == RuleEnds(rs, pos)
      v    == [ends |-> UNION {ends[r] : r \in DOMAIN ends}, open |-> OpenAll(rs, pos)]
      sc   == Scan(pos, v, pos)
  IN  [best |-> BestOf(ends, pos), stop |-> sc.stop, hitEOI |-> sc.hitEOI]

(***************************************************************************)
(* The same attempt, operationally: walk the derivative automaton of the   *)
(* rule set (the reference automaton that the compiled DFA is compared     *)
(* with).  A state is a set of [r, t]: term t of rule r.  TLC checks that  *)
(* both formulations agree (OracleConsistent) in the oracle configuration. *)
(***************************************************************************)
Terms0(set) == {[r |-> r, t |-> P.rules[r].re] : r \in RulesOf(set)}
StepTerms(S, s) == UNION {{[r |-> x.r, t |-> t2] : t2 \in R!PD(x.t, s)} : x \in S}
AccRules(S) == {x.r : x \in {y \in S : R!Nullable(y.t)}}
HasTrans(S) == \E x \in S : R!HasSym(x.t)

RECURSIVE Walk(_, _, _, _)
Walk(from, S, j, best) ==
  LET ok    == {r \in AccRules(S) : CtxOk(r, j)}
      best1 == IF j > from /\ ok # {} THEN [rule |-> Min(ok), end |-> j] ELSE best
  IN  IF j = N + 1 \/ (j > from /\ ~HasTrans(S))
      THEN [best |-> best1, stop |-> MinOf(j, N), hitEOI |-> j = N + 1]
      ELSE LET s  == Ext[j + 1]
               S2 == StepTerms(S, s)
           IN  IF S2 = {}
               THEN [best |-> best1,
                     stop |-> IF s = R!EOI THEN j ELSE j + 1,
                     hitEOI |-> s = R!EOI]
               ELSE Walk(from, S2, j + 1, best1)

AttemptPD == Walk(pos, Terms0(rs), pos, NoBest)

OracleConsistent == fin \/ Attempt = AttemptPD

(***************************************************************************)
(* Events (the observable trace).                                          *)
(***************************************************************************)
NoneEv == [k |-> "N"]
InvEv(at) == [k |-> "I", at |-> Loc(at)]

(***************************************************************************)
(* Actions.                                                                *)
(***************************************************************************)
\* Inputs: every string over sigma up to length k, or the listed inputs; a listed input may come
\* with a guide: the decisions its first actions take (the i-th logged action takes decision
\* guide[i] modulo the size of its menu, as the harness' actions do), all others are explored.
Init ==
  /\ LET ps == Progs IN P \in {ps[i] : i \in 1..Len(ps)}
  /\ IF P.inputs # <<>>
     THEN \E i \in 1..Len(P.inputs) :
            /\ inp = P.inputs[i]
            /\ guide = IF "guides" \in DOMAIN P /\ i <= Len(P.guides) THEN P.guides[i] ELSE <<>>
     ELSE /\ inp \in UNION {[1..m -> {P.sigma[i] : i \in 1..Len(P.sigma)}] : m \in 0..P.k}
          /\ guide = <<>>
  /\ pos = 0 /\ ms = 0 /\ rs = 1 /\ fin = FALSE /\ cnt = 0 /\ nones = 0
  /\ script = <<>> /\ hist = <<>>

\* `next()` when end-of-input has been acted upon: None, forever (C05 fused).
DoNone ==
  /\ fin /\ nones < 4
  /\ nones' = nones + 1
  /\ hist' = Append(hist, NoneEv)
  /\ UNCHANGED <<P, inp, pos, ms, rs, fin, cnt, script, guide>>

\* Init rule set, at a lexeme boundary, input exhausted, no `$` rule applies: the stream ends.
DoEnd(a) ==
  /\ ~fin
  /\ a.best = NoBest /\ rs = 1 /\ pos = N
  /\ fin' = TRUE
  /\ UNCHANGED <<P, inp, pos, ms, rs, cnt, nones, script, guide, hist>>

\* No rule of the active rule set matches here: InvalidToken at the start of the current match;
\* resume after the examined characters, in Init, with an empty match (C07, C08).
DoFail(a) ==
  /\ ~fin
  /\ a.best = NoBest /\ ~(rs = 1 /\ pos = N)
  /\ hist' = Append(hist, InvEv(ms))
  /\ pos' = a.stop /\ ms' = a.stop /\ rs' = 1 /\ fin' = a.hitEOI
  /\ UNCHANGED <<P, inp, cnt, nones, script, guide>>

\* The selected rule's action runs (once), sees the accumulated match and the next character,
\* and takes one of the decisions of its menu (C01, C03, C10).
DoAct(a, ch) ==
  /\ ~fin
  /\ a.best # NoBest
  /\ LET r      == a.best.rule
         j      == a.best.end
         rule   == P.rules[r]
         newpos == MinOf(j, N)
         d      == rule.menu[ch]
         logged == rule.kind \in {"inf", "fal"}
         actEv  == [k |-> "A", r |-> r - 1, n |-> cnt, ms |-> Loc(ms), me |-> Loc(newpos),
                    tx |-> SubSeq(inp, ms + 1, newpos),
                    pk |-> IF newpos < N THEN inp[newpos + 1] ELSE -1,
                    ch |-> ch - 1]
         ms1    == IF d.reset THEN newpos ELSE ms
         item   == CASE d.ret = 1 -> <<[k |-> "T", r |-> r - 1, q |-> IF logged THEN cnt ELSE -1,
                                        s |-> Loc(ms1), e |-> Loc(newpos)]>>
                     [] d.ret = 2 -> <<[k |-> "C", r |-> r - 1, q |-> cnt, at |-> Loc(ms1)]>>
                     [] OTHER     -> <<>>
     IN  /\ ch \in 1..Len(rule.menu)
         /\ (logged /\ Len(script) < Len(guide)) => ch - 1 = guide[Len(script) + 1] % Len(rule.menu)
         /\ hist' = hist \o (IF logged THEN <<actEv>> ELSE <<>>) \o item
         /\ script' = IF logged THEN Append(script, ch - 1) ELSE script
         /\ cnt' = IF logged THEN cnt + 1 ELSE cnt
         /\ pos' = newpos
         /\ ms' = IF d.ret = 0 THEN ms1 ELSE newpos
         /\ rs' = IF d.sw >= 0 THEN d.sw + 1 ELSE rs
         /\ fin' = (j = N + 1)
  /\ UNCHANGED <<P, inp, nones, guide>>

MaxMenu == 8

\* The attempt is evaluated once per step and shared by the three outcomes.
Next ==
  \/ DoNone
  \/ /\ ~fin
     /\ LET a == Attempt
        IN  \/ DoEnd(a)
            \/ DoFail(a)
            \/ \E ch \in 1..MaxMenu : DoAct(a, ch)

Spec == Init /\ [][Next]_vars /\ WF_vars(Next)

Finished == nones = 4

(***************************************************************************)
(* Properties of the reference itself (checked by TLC on every family).    *)
(***************************************************************************)
TypeOK ==
  /\ pos \in 0..N /\ ms \in 0..pos /\ rs \in 1..Len(P.sets)
  /\ fin \in BOOLEAN /\ nones \in 0..4

\* C09: every attempt consumes a character or acts on end-of-input: the measure
\* (N - pos) + (1 if not fin) strictly decreases on every step that is not a None item.
Progress ==
  [][ (nones' = nones) => ((N - pos') + (IF fin' THEN 0 ELSE 1) < (N - pos) + (IF fin THEN 0 ELSE 1)) ]_vars

\* C05: None only after end-of-input was acted upon; afterwards nothing else ever happens.
Fused == [][ nones > 0 => (nones' = nones + 1 /\ hist' = Append(hist, NoneEv)) ]_vars

\* C09: at most N+1 items before the final None, at most N+1 actions.
Items == {i \in 1..Len(hist) : hist[i].k \in {"T", "I", "C"}}
Bounded == Cardinality(Items) <= N + 1 /\ cnt <= N + 1

\* C08: after a failure the active rule set is Init and the current match is empty.
FailResets == [][ (Len(hist') > Len(hist) /\ hist'[Len(hist')].k = "I") => (rs' = 1 /\ ms' = pos') ]_vars

Terminates == <>Finished
=============================================================================

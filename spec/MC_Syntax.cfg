CONSTANTS
  MaxOps = 2
  SmallAtoms = FALSE
INIT Init
NEXT Next
INVARIANTS RoundTrip ReadmeExample PrintCase
CHECK_DEADLOCK FALSE

CONSTANTS
  MaxOps = 2
INIT Init
NEXT Next
INVARIANTS RoundTrip ReadmeExample PrintCase
CHECK_DEADLOCK FALSE

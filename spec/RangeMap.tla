------------------------------ MODULE RangeMap ------------------------------
(***************************************************************************)
(* The range map of crates/lexgen/src/range_map.rs: a sorted vector of     *)
(* disjoint inclusive ranges with values; the values here are sets and     *)
(* merging is union (as in the NFA, where values are sets of states; the   *)
(* class algebra uses the unit value).                                     *)
(*                                                                         *)
(* Two levels:                                                             *)
(*  - meaning: Den(rm) maps every point to the union of the values of the  *)
(*    ranges covering it; insert / insert_ranges / remove_ranges are       *)
(*    point-wise union / union / subtraction (the README meaning of        *)
(*    bracket sets, `|` between classes and `#`);                          *)
(*  - implementation: the three loops of range_map.rs transcribed          *)
(*    iteration by iteration (one recursive call = one loop iteration,     *)
(*    the cursor variables are the parameters, every `if` arm of the code  *)
(*    is one arm here so that TLC's coverage shows which arms ran).        *)
(* TLC checks, for every reachable representation and every operation over *)
(* a small universe, that the loops preserve well-formedness and have the  *)
(* point-wise meaning (StepCorrect), and prints every transition; the      *)
(* harness replays each transition into the real RangeMap.                 *)
(***************************************************************************)
EXTENDS RangeMapOps, TLC, Json

CONSTANTS MaxPoint,   \* universe is 0..MaxPoint
          Values      \* value atoms, e.g. {1, 2}

U == 0..MaxPoint

VARIABLES rm,    \* the map: sequence of [s, e, v]
          last   \* [op, before]: the operation that produced rm (for replay)

vars == <<rm, last>>

(***************************************************************************)
(* Meaning                                                                 *)
(***************************************************************************)
Den(m) == [c \in U |-> UNION {m[i].v : i \in {j \in 1..Len(m) : m[j].s <= c /\ c <= m[j].e}}]

WellFormed(m) ==
  /\ \A i \in 1..Len(m) : m[i].s <= m[i].e /\ m[i].s \in U /\ m[i].e \in U /\ m[i].v # {}
  /\ \A i \in 1..(Len(m) - 1) : m[i].e < m[i + 1].s

AbsInsert(d, a, b, v) == [c \in U |-> IF a <= c /\ c <= b THEN d[c] \cup v ELSE d[c]]
AbsInsertRanges(d, m2) == [c \in U |-> d[c] \cup Den(m2)[c]]
AbsRemoveRanges(d, m2) == [c \in U |-> IF Den(m2)[c] # {} THEN {} ELSE d[c]]

(***************************************************************************)
(* Operations and the history machine                                      *)
(***************************************************************************)
\* Argument maps of insert_ranges / remove_ranges: every sorted list of disjoint (possibly
\* adjacent) ranges over U whose pieces all carry the one-atom value {x}.
RECURSIVE PiecesFrom(_)
PiecesFrom(lo) ==   \* all lists of [s, e] pairs with s >= lo, sorted, disjoint
  IF lo > MaxPoint THEN {<<>>}
  ELSE {<<>>} \cup UNION { UNION { {<<<<s, e>>>> \o t : t \in PiecesFrom(e + 1)} : e \in s..MaxPoint } : s \in lo..MaxPoint }

ArgMaps(x) == {[i \in 1..Len(ps) |-> Rng(ps[i][1], ps[i][2], {x})] : ps \in PiecesFrom(0)}

Ops ==
       {[k |-> "ins", a |-> a, b |-> b, v |-> {x}, m |-> <<>>] : a \in U, b \in U, x \in Values}
  \cup UNION {{[k |-> "insr", a |-> 0, b |-> 0, v |-> {}, m |-> m2] : m2 \in ArgMaps(x)} : x \in Values}
  \cup {[k |-> "rem", a |-> 0, b |-> 0, v |-> {}, m |-> m2] : m2 \in ArgMaps(CHOOSE x \in Values : TRUE)}

ValidOp(op) == op.k = "ins" => op.a <= op.b

Apply(op, m) ==
  CASE op.k = "ins"  -> Insert(m, op.a, op.b, op.v)
    [] op.k = "insr" -> InsertRanges(m, op.m)
    [] op.k = "rem"  -> RemoveRanges(m, op.m)

AbsApply(op, d) ==
  CASE op.k = "ins"  -> AbsInsert(d, op.a, op.b, op.v)
    [] op.k = "insr" -> AbsInsertRanges(d, op.m)
    [] op.k = "rem"  -> AbsRemoveRanges(d, op.m)

NoOp == [k |-> "none", a |-> 0, b |-> 0, v |-> {}, m |-> <<>>]

Init == rm = <<>> /\ last = [op |-> NoOp, before |-> <<>>]

Next == \E op \in Ops :
          /\ ValidOp(op)
          /\ rm' = Apply(op, rm)
          /\ last' = [op |-> op, before |-> rm]

\* Properties
Inv == WellFormed(rm)
StepCorrect == last.op.k # "none" => Den(rm) = AbsApply(last.op, Den(last.before))

\* Output for the replay harness: one line per transition.
RECURSIVE SetToSeq(_)
SetToSeq(S) == IF S = {} THEN <<>>
               ELSE LET m == CHOOSE x \in S : \A y \in S : x <= y IN <<m>> \o SetToSeq(S \ {m})
J(m) == [i \in 1..Len(m) |-> [s |-> m[i].s, e |-> m[i].e, v |-> SetToSeq(m[i].v)]]
PrintTransition ==
  last.op.k # "none" =>
    PrintT(<<"TR", ToJson([k |-> last.op.k, a |-> last.op.a, b |-> last.op.b, v |-> SetToSeq(last.op.v),
                           m |-> J(last.op.m), before |-> J(last.before), after |-> J(rm)])>>)
=============================================================================

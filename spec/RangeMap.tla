------------------------------ MODULE RangeMap ------------------------------
(***************************************************************************)
(* The range map of crates/lexgen/src/range_map.rs: a sorted vector of     *)
(* disjoint inclusive ranges with values; the values here are sets and     *)
(* merging is union (as in the NFA, where values are sets of states; the   *)
(* class algebra uses the unit value).                                     *)
(*                                                                         *)
(* Two levels:                                                             *)
(*  - meaning: Den(rm) maps every point to the union of the values of the  *)
(*    ranges covering it; insert / insert_ranges / remove_ranges are       *)
(*    point-wise union / union / subtraction (the README meaning of        *)
(*    bracket sets, `|` between classes and `#`);                          *)
(*  - implementation: the three loops of range_map.rs transcribed          *)
(*    iteration by iteration (one recursive call = one loop iteration,     *)
(*    the cursor variables are the parameters, every `if` arm of the code  *)
(*    is one arm here so that TLC's coverage shows which arms ran).        *)
(* TLC checks, for every reachable representation and every operation over *)
(* a small universe, that the loops preserve well-formedness and have the  *)
(* point-wise meaning (StepCorrect), and prints every transition; the      *)
(* harness replays each transition into the real RangeMap.                 *)
(***************************************************************************)
EXTENDS Integers, Sequences, FiniteSets, TLC, Json

CONSTANTS MaxPoint,   \* universe is 0..MaxPoint
          Values      \* value atoms, e.g. {1, 2}

U == 0..MaxPoint

VARIABLES rm,    \* the map: sequence of [s, e, v]
          last   \* [op, before]: the operation that produced rm (for replay)

vars == <<rm, last>>

Rng(s, e, v) == [s |-> s, e |-> e, v |-> v]
MaxOf(a, b) == IF a >= b THEN a ELSE b
MinOf(a, b) == IF a <= b THEN a ELSE b

(***************************************************************************)
(* Meaning                                                                 *)
(***************************************************************************)
Den(m) == [c \in U |-> UNION {m[i].v : i \in {j \in 1..Len(m) : m[j].s <= c /\ c <= m[j].e}}]

WellFormed(m) ==
  /\ \A i \in 1..Len(m) : m[i].s <= m[i].e /\ m[i].s \in U /\ m[i].e \in U /\ m[i].v # {}
  /\ \A i \in 1..(Len(m) - 1) : m[i].e < m[i + 1].s

AbsInsert(d, a, b, v) == [c \in U |-> IF a <= c /\ c <= b THEN d[c] \cup v ELSE d[c]]
AbsInsertRanges(d, m2) == [c \in U |-> d[c] \cup Den(m2)[c]]
AbsRemoveRanges(d, m2) == [c \in U |-> IF Den(m2)[c] # {} THEN {} ELSE d[c]]

(***************************************************************************)
(* RangeMap::insert(new_range_start, new_range_end, value, merge)          *)
(***************************************************************************)
RECURSIVE InsLoop(_, _, _, _, _, _)
InsLoop(old, i, out, ns, ne, v) ==
  IF i > Len(old)
  THEN \* loop ran out of ranges: push what is left of the new range
       IF out = <<>> \/ out[Len(out)].e < ns THEN Append(out, Rng(ns, ne, v)) ELSE out
  ELSE
    LET r    == old[i]
        rest == SubSeq(old, i + 1, Len(old))
    IN  IF r.e < ns
        THEN InsLoop(old, i + 1, Append(out, r), ns, ne, v)
        ELSE IF r.s > ne
        THEN out \o <<Rng(ns, ne, v), r>> \o rest
        ELSE
          LET os == MaxOf(ns, r.s)
              oe == MinOf(ne, r.e)
              \* (1) new range before the overlap / (2) old range before the overlap
              o1 == IF ns < os THEN Append(out, Rng(ns, os - 1, v))
                    ELSE IF r.s < os THEN Append(out, Rng(r.s, os - 1, r.v))
                    ELSE out
              \* (3) the overlapping part
              o2 == Append(o1, Rng(os, oe, r.v \cup v))
          IN  \* (4) old range after the overlap
              IF r.e > oe THEN Append(o2, Rng(oe + 1, r.e, r.v)) \o rest
              \* (5) new range after the overlap: next iteration
              ELSE IF ne > oe THEN InsLoop(old, i + 1, o2, oe + 1, ne, v)
              ELSE o2 \o rest

Insert(m, a, b, v) == InsLoop(m, 1, <<>>, a, b, v)

(***************************************************************************)
(* RangeMap::insert_ranges(ranges2, merge): merge of two sorted lists.     *)
(* c1 / c2 are the current (possibly already trimmed) ranges or <<>>,      *)
(* l1 / l2 what the iterators still hold.                                  *)
(***************************************************************************)
Head1(l) == IF l = <<>> THEN <<>> ELSE <<l[1]>>
Tail1(l) == IF l = <<>> THEN <<>> ELSE Tail(l)

RECURSIVE MergeLoop(_, _, _, _, _)
MergeLoop(c1, l1, c2, l2, out) ==
  IF c1 # <<>> /\ c2 # <<>> THEN
    LET a == c1[1]
        b == c2[1]
    IN  IF a.e < b.s THEN MergeLoop(Head1(l1), Tail1(l1), c2, l2, Append(out, a))
        ELSE IF b.e < a.s THEN MergeLoop(c1, l1, Head1(l2), Tail1(l2), Append(out, b))
        ELSE
          LET os == MaxOf(a.s, b.s)
              oe == MinOf(a.e, b.e)
          IN  IF a.s < b.s
              THEN MergeLoop(<<Rng(os, a.e, a.v)>>, l1, c2, l2, Append(out, Rng(a.s, os - 1, a.v)))
              ELSE IF a.s > b.s
              THEN MergeLoop(c1, l1, <<Rng(os, b.e, b.v)>>, l2, Append(out, Rng(b.s, os - 1, b.v)))
              ELSE
                LET out1 == Append(out, Rng(os, oe, a.v \cup b.v))
                IN  IF a.e < b.e
                    THEN MergeLoop(Head1(l1), Tail1(l1), <<Rng(oe + 1, b.e, b.v)>>, l2, out1)
                    ELSE IF a.e > b.e
                    THEN MergeLoop(<<Rng(oe + 1, a.e, a.v)>>, l1, Head1(l2), Tail1(l2), out1)
                    ELSE MergeLoop(Head1(l1), Tail1(l1), Head1(l2), Tail1(l2), out1)
  ELSE IF c1 # <<>> THEN out \o c1 \o l1
  ELSE IF c2 # <<>> THEN out \o c2 \o l2
  ELSE out

InsertRanges(m, m2) == MergeLoop(Head1(m), Tail1(m), Head1(m2), Tail1(m2), <<>>)

(***************************************************************************)
(* RangeMap::remove_ranges(other): sorted-list subtraction.                *)
(***************************************************************************)
RECURSIVE RemLoop(_, _, _, _, _)
RemLoop(c1, l1, c2, l2, out) ==
  IF c1 # <<>> /\ c2 # <<>> THEN
    LET a == c1[1]    \* old range
        b == c2[1]    \* removed range
    IN  IF a.e < b.s THEN RemLoop(Head1(l1), Tail1(l1), c2, l2, Append(out, a))
        ELSE IF b.e < a.s THEN RemLoop(c1, l1, Head1(l2), Tail1(l2), out)
        ELSE
          LET os == MaxOf(a.s, b.s)
              oe == MinOf(a.e, b.e)
          IN  \* (1) overlap starts at the left end of the old range
              IF os = a.s THEN
                IF oe = a.e
                THEN \* the whole old range is removed; the removed range may reach further
                     RemLoop(Head1(l1), Tail1(l1), c2, l2, out)
                ELSE RemLoop(<<Rng(oe + 1, a.e, a.v)>>, l1, Head1(l2), Tail1(l2), out)
              \* (2) overlap ends at the right end of the old range
              ELSE IF oe = a.e
              THEN RemLoop(Head1(l1), Tail1(l1), c2, l2, Append(out, Rng(a.s, os - 1, a.v)))
              \* (3) overlap in the middle of the old range
              ELSE RemLoop(<<Rng(oe + 1, a.e, a.v)>>, l1, c2, l2, Append(out, Rng(a.s, os - 1, a.v)))
  ELSE IF c1 # <<>> THEN out \o c1 \o l1
  ELSE out

RemoveRanges(m, m2) == RemLoop(Head1(m), Tail1(m), Head1(m2), Tail1(m2), <<>>)

(***************************************************************************)
(* Operations and the history machine                                      *)
(***************************************************************************)
\* Argument maps of insert_ranges / remove_ranges: every sorted list of disjoint (possibly
\* adjacent) ranges over U whose pieces all carry the one-atom value {x}.
RECURSIVE PiecesFrom(_)
PiecesFrom(lo) ==   \* all lists of [s, e] pairs with s >= lo, sorted, disjoint
  IF lo > MaxPoint THEN {<<>>}
  ELSE {<<>>} \cup UNION { UNION { {<<<<s, e>>>> \o t : t \in PiecesFrom(e + 1)} : e \in s..MaxPoint } : s \in lo..MaxPoint }

ArgMaps(x) == {[i \in 1..Len(ps) |-> Rng(ps[i][1], ps[i][2], {x})] : ps \in PiecesFrom(0)}

Ops ==
       {[k |-> "ins", a |-> a, b |-> b, v |-> {x}, m |-> <<>>] : a \in U, b \in U, x \in Values}
  \cup UNION {{[k |-> "insr", a |-> 0, b |-> 0, v |-> {}, m |-> m2] : m2 \in ArgMaps(x)} : x \in Values}
  \cup {[k |-> "rem", a |-> 0, b |-> 0, v |-> {}, m |-> m2] : m2 \in ArgMaps(CHOOSE x \in Values : TRUE)}

ValidOp(op) == op.k = "ins" => op.a <= op.b

Apply(op, m) ==
  CASE op.k = "ins"  -> Insert(m, op.a, op.b, op.v)
    [] op.k = "insr" -> InsertRanges(m, op.m)
    [] op.k = "rem"  -> RemoveRanges(m, op.m)

AbsApply(op, d) ==
  CASE op.k = "ins"  -> AbsInsert(d, op.a, op.b, op.v)
    [] op.k = "insr" -> AbsInsertRanges(d, op.m)
    [] op.k = "rem"  -> AbsRemoveRanges(d, op.m)

NoOp == [k |-> "none", a |-> 0, b |-> 0, v |-> {}, m |-> <<>>]

Init == rm = <<>> /\ last = [op |-> NoOp, before |-> <<>>]

Next == \E op \in Ops :
          /\ ValidOp(op)
          /\ rm' = Apply(op, rm)
          /\ last' = [op |-> op, before |-> rm]

\* Properties
Inv == WellFormed(rm)
StepCorrect == last.op.k # "none" => Den(rm) = AbsApply(last.op, Den(last.before))

\* Output for the replay harness: one line per transition.
RECURSIVE SetToSeq(_)
SetToSeq(S) == IF S = {} THEN <<>>
               ELSE LET m == CHOOSE x \in S : \A y \in S : x <= y IN <<m>> \o SetToSeq(S \ {m})
J(m) == [i \in 1..Len(m) |-> [s |-> m[i].s, e |-> m[i].e, v |-> SetToSeq(m[i].v)]]
PrintTransition ==
  last.op.k # "none" =>
    PrintT(<<"TR", ToJson([k |-> last.op.k, a |-> last.op.a, b |-> last.op.b, v |-> SetToSeq(last.op.v),
                           m |-> J(last.op.m), before |-> J(last.before), after |-> J(rm)])>>)
=============================================================================

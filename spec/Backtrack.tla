----------------------------- MODULE Backtrack -----------------------------
(***************************************************************************)
(* The backtrack-elision analysis (crates/lexgen/src/dfa/backtrack.rs):    *)
(* decides, per DFA state, whether a failing scan in that state may have   *)
(* passed an accepting state earlier (and must therefore rewind) or not    *)
(* (and may report an error directly).  A work-list fixpoint: one action   *)
(* per loop iteration, exactly as in the code; the order in which items    *)
(* are popped depends on hash iteration order, so it is nondeterministic   *)
(* here.                                                                   *)
(*                                                                         *)
(* The graph (states, edges, accepting and initial states) is a variable   *)
(* chosen initially: in the model-checking configuration every graph with  *)
(* up to MaxStates states, in the trace configuration the real DFA dumped  *)
(* by the macro.                                                           *)
(***************************************************************************)
EXTENDS Integers, Sequences, FiniteSets, TLC

VARIABLES g,        \* [n, succ: state -> sequence of targets (one per transition), acc, init]; states 0..n-1
          work,     \* bag of <<state, flag>>: function pair -> count
          visited   \* function state -> -1 (not visited), 0 (visited, flag false), 1 (flag true)

vars == <<g, work, visited>>

States(gr) == 0..(gr.n - 1)
Succs(gr, s) == {gr.succ[s][i] : i \in 1..Len(gr.succ[s])}
Mult(gr, s, t) == Cardinality({i \in 1..Len(gr.succ[s]) : gr.succ[s][i] = t})
\* the code pushes one item per transition: parallel transitions to the same target give
\* duplicates in the work list (processing a duplicate is a no-op)
B(b) == IF b THEN 1 ELSE 0

RECURSIVE SetToSeq(_)
SetToSeq(S) == IF S = {} THEN <<>>
               ELSE LET m == CHOOSE x \in S : \A y \in S : x <= y IN <<m>> \o SetToSeq(S \ {m})

Pairs(gr) == States(gr) \X {0, 1}
EmptyBag(gr) == [p \in Pairs(gr) |-> 0]
BagAdd(bag, ps) == [p \in DOMAIN bag |-> bag[p] + (IF p \in ps THEN 1 ELSE 0)]
BagDel(bag, p) == [bag EXCEPT ![p] = @ - 1]
BagEmpty(bag) == \A p \in DOMAIN bag : bag[p] = 0

InitFor(gr) ==
  /\ g = gr
  /\ work = BagAdd(EmptyBag(gr), {<<s, 0>> : s \in gr.init})
  /\ visited = [s \in States(gr) |-> -1]

\* One iteration of `while let Some((state, backtrack)) = work_list.pop()`.
Visit(s, b) ==
  /\ work[<<s, b>>] > 0
  /\ LET rest == BagDel(work, <<s, b>>)
         succFlag == IF b = 1 \/ s \in g.acc THEN 1 ELSE 0
         push == [p \in DOMAIN rest |-> rest[p] + (IF p[2] = succFlag THEN Mult(g, s, p[1]) ELSE 0)]
     IN  IF visited[s] = -1
         THEN visited' = [visited EXCEPT ![s] = b] /\ work' = push
         ELSE IF visited[s] = 1 \/ b = 0
         THEN visited' = visited /\ work' = rest              \* nothing new: skip
         ELSE visited' = [visited EXCEPT ![s] = 1] /\ work' = push   \* false -> true: revisit
  /\ UNCHANGED g

Next == \E s \in States(g), b \in {0, 1} : Visit(s, b)

Done == BagEmpty(work)

(***************************************************************************)
(* Properties                                                              *)
(***************************************************************************)
\* the flag only ever goes from false to true
Monotone == [][\A s \in States(g) : visited[s] = 1 => visited'[s] = 1]_vars

RECURSIVE ReachFrom(_, _, _)
ReachFrom(gr, frontier, seen) ==
  IF frontier = {} THEN seen
  ELSE LET nxt == (UNION {Succs(gr, s) : s \in frontier}) \ seen
       IN  ReachFrom(gr, nxt, seen \cup nxt)

Reachable(gr) == ReachFrom(gr, gr.init, gr.init)
\* states reachable through at least one edge from an accepting reachable state
AfterAcc(gr) ==
  LET a == Reachable(gr) \cap gr.acc
      first == UNION {Succs(gr, s) : s \in a}
  IN  ReachFrom(gr, first, first)

\* At termination: every reachable state is visited, and a state is flagged exactly when some
\* path from an initial state reaches it after passing an accepting state.
ResultCorrect ==
  Done => /\ \A s \in Reachable(g) : visited[s] # -1
          /\ \A s \in States(g) : (visited[s] = 1) <=> (s \in AfterAcc(g))

Terminates == <>Done

\* variant for termination: (number of possible upgrades left, size of the bag)
(***************************************************************************)
(* Model-checking configuration: all graphs with up to MaxStates states    *)
(***************************************************************************)
CONSTANT MaxStates

AllGraphs ==
  UNION {{[n |-> n, succ |-> [s \in 0..(n - 1) |-> SetToSeq({t \in 0..(n - 1) : <<s, t>> \in e})],
            acc |-> a, init |-> i \cup {0}] :
            e \in SUBSET ((0..(n - 1)) \X (0..(n - 1))), a \in SUBSET (0..(n - 1)), i \in SUBSET (0..(n - 1))}
         : n \in 1..MaxStates}

MCInit == \E gr \in AllGraphs : InitFor(gr)
MCSpec == MCInit /\ [][Next]_vars /\ WF_vars(Next)
=============================================================================

CONSTANTS
  MaxP = 7
INIT Init
NEXT Next
INVARIANTS BothExact
CHECK_DEADLOCK FALSE

INIT Init
NEXT Next
INVARIANTS Report
CHECK_DEADLOCK FALSE

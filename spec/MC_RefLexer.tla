---------------------------- MODULE MC_RefLexer ----------------------------
(* Model-checking instance of RefLexer: programs come from a JSON file, every
   finished behaviour is printed as one REPLAY line (the expected observable
   trace), which the harness replays into the real generated lexer. *)
EXTENDS RefLexer, Json, IOUtils, TLC

MCProgs == JsonDeserialize(IOEnv.VERIF_PROGS)

PrintReplay ==
  Finished => PrintT(<<"REPLAY", ToJson([p |-> P.id, inp |-> inp, script |-> script, ev |-> Append(hist, [k |-> "S", n |-> cnt])])>>)
=============================================================================

CONSTANTS
  MaxC = 9
  GapLo = 4
  GapHi = 5
SPECIFICATION Spec
INVARIANTS ResultCorrect
PROPERTIES Terminates
CHECK_DEADLOCK FALSE

------------------------------- MODULE Syntax -------------------------------
(***************************************************************************)
(* The documented regex grammar of lexgen definitions (C16):               *)
(*                                                                         *)
(*   re_0 -> re_1 | re_0 `|` re_1          alternation, left associative   *)
(*   re_1 -> re_2 | re_1 re_2              concatenation, left associative *)
(*   re_2 -> re_3 | re_2 `*` | re_2 `+` | re_2 `?`      postfix            *)
(*   re_3 -> re_4 | re_3 `#` re_4          difference, left associative    *)
(*   re_4 -> `(` re_0 `)` | atom                                           *)
(*                                                                         *)
(* Trees are records [k, ...]; tokens are strings.  Print(t) prints a tree *)
(* with the fewest parentheses these levels allow; PrintR additionally     *)
(* wraps the sub-trees selected by a set of paths in redundant             *)
(* parentheses.  Parse is the five-level recursive descent.  TLC checks    *)
(* Parse(PrintMin(t)) = t and Parse(PrintR(t, S)) = t for every tree up to a  *)
(* size bound, i.e. that the documented grammar reads every printed tree   *)
(* back as that tree, and prints every (tree, token string) pair; the      *)
(* harness feeds the same token strings to the real macro and compares     *)
(* the syntax tree its parser produced (dump hook) with the tree.          *)
(***************************************************************************)
EXTENDS Integers, Sequences, FiniteSets, TLC, Json

CONSTANTS MaxOps,     \* bound on the number of operators in a tree
          SmallAtoms  \* TRUE: three atoms only (deeper trees stay enumerable)

\* 'a', 'b', a bracket set ['a'-'c'], any character, a string "ab", end of input `$`,
\* a built-in `$$ascii_digit` (two `$` tokens and an identifier in the real syntax)
Atoms == IF SmallAtoms THEN {"a", "K", "_"} ELSE {"a", "b", "K", "_", "S", "D", "B"}
ClassAtoms == {"a", "b", "K", "_", "B"}

Atom(x) == [k |-> "atom", x |-> x]
Un(k, a) == [k |-> k, a |-> a]
Bin(k, a, b) == [k |-> k, a |-> a, b |-> b]

\* operands of `#` must be character classes: atoms, unions and differences of classes
RECURSIVE IsClass(_)
IsClass(t) ==
  CASE t.k = "atom" -> t.x \in ClassAtoms
    [] t.k \in {"alt", "diff"} -> IsClass(t.a) /\ IsClass(t.b)
    [] OTHER -> FALSE

RECURSIVE Trees(_)
Trees(n) ==
  IF n = 0 THEN {Atom(x) : x \in Atoms}
  ELSE LET smaller == [m \in 0..(n - 1) |-> Trees(m)]
       IN  UNION {{Un(k, t) : k \in {"star", "plus", "opt"}, t \in smaller[n - 1]}}
           \cup UNION { UNION { {Bin(k, l, r) : k \in {"cat", "alt"}, l \in smaller[m], r \in smaller[n - 1 - m]}
                                \cup {Bin("diff", l, r) : l \in {x \in smaller[m] : IsClass(x)},
                                                          r \in {x \in smaller[n - 1 - m] : IsClass(x)}}
                              : m \in 0..(n - 1) } }

AllTrees == UNION {Trees(n) : n \in 0..MaxOps}

Level(t) ==
  CASE t.k = "alt" -> 0
    [] t.k = "cat" -> 1
    [] t.k \in {"star", "plus", "opt"} -> 2
    [] t.k = "diff" -> 3
    [] OTHER -> 4

Paren(s) == <<"(">> \o s \o <<")">>
PostfixTok(k) == CASE k = "star" -> "*" [] k = "plus" -> "+" [] k = "opt" -> "?"

\* Print with redundant parentheses around the sub-trees whose path (sequence of "a"/"b"
\* selectors from the root) is in S; S = {} gives the minimal printing.
RECURSIVE PrintAt(_, _, _, _)
PrintAt(t, lvl, path, S) ==
  LET body ==
        CASE t.k = "atom" -> <<t.x>>
          [] t.k = "alt"  -> PrintAt(t.a, 0, Append(path, "a"), S) \o <<"|">> \o PrintAt(t.b, 1, Append(path, "b"), S)
          [] t.k = "cat"  -> PrintAt(t.a, 1, Append(path, "a"), S) \o PrintAt(t.b, 2, Append(path, "b"), S)
          [] t.k \in {"star", "plus", "opt"} -> PrintAt(t.a, 2, Append(path, "a"), S) \o <<PostfixTok(t.k)>>
          [] t.k = "diff" -> PrintAt(t.a, 3, Append(path, "a"), S) \o <<"#">> \o PrintAt(t.b, 4, Append(path, "b"), S)
  IN  IF Level(t) < lvl \/ path \in S THEN Paren(body) ELSE body

PrintMin(t) == PrintAt(t, 0, <<>>, {})
PrintR(t, S) == PrintAt(t, 0, <<>>, S)

RECURSIVE Paths(_, _)
Paths(t, path) ==
  {path} \cup
  (CASE t.k = "atom" -> {}
     [] t.k \in {"star", "plus", "opt"} -> Paths(t.a, Append(path, "a"))
     [] OTHER -> Paths(t.a, Append(path, "a")) \cup Paths(t.b, Append(path, "b")))

(***************************************************************************)
(* Recursive descent.  A result is [t |-> tree, i |-> index of the next    *)
(* token]; Err marks a syntax error.                                       *)
(***************************************************************************)
Err == [t |-> [k |-> "err"], i |-> 0]
IsErr(r) == r.t.k = "err"
Tok(toks, i) == IF i <= Len(toks) THEN toks[i] ELSE "<end>"
StartsAtom(tk) == tk \in Atoms \cup {"("}

RECURSIVE P0(_, _), P0Loop(_, _), P1(_, _), P1Loop(_, _), P2(_, _), P2Loop(_, _),
          P3(_, _), P3Loop(_, _), P4(_, _)

P0(toks, i) == LET r == P1(toks, i) IN IF IsErr(r) THEN Err ELSE P0Loop(toks, r)
P0Loop(toks, left) ==
  IF Tok(toks, left.i) = "|"
  THEN LET r == P1(toks, left.i + 1)
       IN  IF IsErr(r) THEN Err ELSE P0Loop(toks, [t |-> Bin("alt", left.t, r.t), i |-> r.i])
  ELSE left

P1(toks, i) == LET r == P2(toks, i) IN IF IsErr(r) THEN Err ELSE P1Loop(toks, r)
P1Loop(toks, left) ==
  IF StartsAtom(Tok(toks, left.i))
  THEN LET r == P2(toks, left.i)
       IN  IF IsErr(r) THEN Err ELSE P1Loop(toks, [t |-> Bin("cat", left.t, r.t), i |-> r.i])
  ELSE left

P2(toks, i) == LET r == P3(toks, i) IN IF IsErr(r) THEN Err ELSE P2Loop(toks, r)
P2Loop(toks, left) ==
  LET tk == Tok(toks, left.i) IN
  IF tk = "*" THEN P2Loop(toks, [t |-> Un("star", left.t), i |-> left.i + 1])
  ELSE IF tk = "?" THEN P2Loop(toks, [t |-> Un("opt", left.t), i |-> left.i + 1])
  ELSE IF tk = "+" THEN P2Loop(toks, [t |-> Un("plus", left.t), i |-> left.i + 1])
  ELSE left

P3(toks, i) == LET r == P4(toks, i) IN IF IsErr(r) THEN Err ELSE P3Loop(toks, r)
P3Loop(toks, left) ==
  IF Tok(toks, left.i) = "#"
  THEN LET r == P4(toks, left.i + 1)
       IN  IF IsErr(r) THEN Err ELSE P3Loop(toks, [t |-> Bin("diff", left.t, r.t), i |-> r.i])
  ELSE left

P4(toks, i) ==
  LET tk == Tok(toks, i) IN
  IF tk = "("
  THEN LET r == P0(toks, i + 1)
       IN  IF IsErr(r) \/ Tok(toks, r.i) # ")" THEN Err ELSE [t |-> r.t, i |-> r.i + 1]
  ELSE IF tk \in Atoms THEN [t |-> Atom(tk), i |-> i + 1]
  ELSE Err

Parse(toks) ==
  LET r == P0(toks, 1)
  IN  IF IsErr(r) \/ r.i # Len(toks) + 1 THEN [k |-> "err"] ELSE r.t

(***************************************************************************)
(* Model: one state per (tree, set of redundantly parenthesised paths).    *)
(***************************************************************************)
VARIABLES tree, red
vars == <<tree, red>>

\* For every tree the minimal printing and every printing with ONE redundant pair of
\* parentheses (each sub-tree in turn), plus the printing with all of them.
Init == /\ tree \in AllTrees
        /\ red \in {{}} \cup {{p} : p \in Paths(tree, <<>>)} \cup {Paths(tree, <<>>)}
Next == UNCHANGED vars

RoundTrip == Parse(PrintR(tree, red)) = tree

\* the README's example: 'a' 'b' | 'c'+  is  (('a' 'b') | ('c'+))
ReadmeExample ==
  Parse(<<"a", "b", "|", "K", "+">>) = Bin("alt", Bin("cat", Atom("a"), Atom("b")), Un("plus", Atom("K")))

PrintCase == PrintT(<<"SYN", ToJson([tree |-> tree, toks |-> PrintR(tree, red)])>>)
=============================================================================

CONSTANTS
  MaxTop = 3
  MaxInner = 1
INIT Init
NEXT Next
INVARIANTS PrintCase
CHECK_DEADLOCK FALSE

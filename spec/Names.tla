-------------------------------- MODULE Names --------------------------------
(***************************************************************************)
(* The items a `lexer!` expansion declares at module level, as a function  *)
(* of the lexer's name and of how many semantic actions, right contexts    *)
(* and binary-search tables it needs (C12: several lexers declared in one  *)
(* module must not clash).                                                 *)
(*                                                                         *)
(*   struct <L>_, type <L>, enum <L>Rule,                                  *)
(*   fn <L>_ACTION_<i>      for each rule i                                *)
(*   fn <L>_RIGHT_CTX_<j>   for each right context j                       *)
(*   static <L>_RANGE_TABLE_<k>  for each search table k                   *)
(*   fn <L>_binary_search   when there is at least one table               *)
(*                                                                         *)
(* TLC checks that two lexers whose names are different (and neither is    *)
(* the other followed by a suffix the scheme uses) declare disjoint items, *)
(* and that the items recorded from real expansions (lexer_verif! hook)    *)
(* are exactly the ones this scheme predicts.                              *)
(***************************************************************************)
EXTENDS Integers, Sequences, FiniteSets, TLC, Json, IOUtils

Num(i) == ToString(i)

Items(name, nact, nctx, ntab) ==
  {"struct " \o name \o "_", "type " \o name, "enum " \o name \o "Rule"}
  \cup {"fn " \o name \o "_ACTION_" \o Num(i) : i \in 0..(nact - 1)}
  \cup {"fn " \o name \o "_RIGHT_CTX_" \o Num(j) : j \in 0..(nctx - 1)}
  \cup {"static " \o name \o "_RANGE_TABLE_" \o Num(k) : k \in 0..(ntab - 1)}
  \cup (IF ntab > 0 THEN {"fn " \o name \o "_binary_search"} ELSE {})

=============================================================================

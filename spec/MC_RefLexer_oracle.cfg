CONSTANTS
  Progs <- MCProgs
INIT Init
NEXT Next
INVARIANTS TypeOK Bounded OracleConsistent
PROPERTIES Progress Fused FailResets
CHECK_DEADLOCK FALSE

------------------------------ MODULE LexUtil ------------------------------
(***************************************************************************)
(* The run-time library object lexgen_util::Lexer, one action per          *)
(* operation the generated code performs on it (implementation level of    *)
(* the run-time machine), and the protocol the generated code must follow  *)
(* when it returns an item or runs a semantic action.                      *)
(*                                                                         *)
(* Registers: p (characters consumed by the iterator = end of the current  *)
(* match), msp (start of the current match), lm (the saved match: none or  *)
(* its start and end), and the three public registers st / ini / dn        *)
(* (__state, __initial_state, __done) which the generated code also writes *)
(* directly, so their values are taken from the recording and only         *)
(* constrained where an operation writes them.                             *)
(*                                                                         *)
(* This module is used as a trace specification: a recording (one event    *)
(* per library operation, emitted by the lexgen_verif hook after the       *)
(* change, with the registers after it, plus harness markers for "action   *)
(* starts" and "next() returned <item>") is accepted only if every event   *)
(* is the corresponding action of this specification: the logged locations *)
(* must be the fold of Chars!Advance over the input (C06), a rewind must   *)
(* restore exactly the saved match (C01), a failed rewind must reset both  *)
(* state registers (C08), a successful one must clear done (C05).          *)
(* Protocol invariants (internal; a violation is a lead that the harness   *)
(* turns into a witness input before reporting anything):                  *)
(*   NoStaleMatch   no saved match when an action starts or an item is     *)
(*                  returned (else a later failure rewinds into old text)  *)
(*   EmptyAfterItem the current match is empty after a token / error       *)
(*   BackToEntry    __state = __initial_state after a token / custom error *)
(*   FailureToInit  __state = __initial_state = 0 after InvalidToken       *)
(*   NoneMeansDone  __done when None is returned                           *)
(***************************************************************************)
EXTENDS Integers, Sequences, FiniteSets, TLC, Json, IOUtils, Chars

VARIABLES run,      \* the recording: [i, inp, fine]
          l,        \* index of the next event
          p, msp, lm,
          st, ini, dn,
          lead,     \* <<>> or <<[at event, consumed, which invariant]>>: first protocol violation
          verdict   \* "run", "ok", "rej"

vars == <<run, l, p, msp, lm, st, ini, dn, lead, verdict>>

Runs == ndJsonDeserialize(IOEnv.VERIF_FINE)

inp == run.inp
N == Len(inp)
Loc(i) == LocSeq(LocAt(inp, i))
LmLocs(x) == IF x = <<>> THEN <<>> ELSE <<Loc(x[1].ms), Loc(x[1].p)>>

Init ==
  /\ LET rs == Runs IN run \in {rs[i] : i \in 1..Len(rs)}
  /\ l = 1 /\ p = 0 /\ msp = 0 /\ lm = <<>>
  /\ st = 0 /\ ini = 0 /\ dn = FALSE
  /\ lead = <<>> /\ verdict = "run"

E == run.fine[l]

\* What every library event must satisfy after the operation: the logged registers are the
\* specification's registers.
Post(e, p2, msp2, lm2) ==
  /\ e.me = Loc(p2)
  /\ e.ms = Loc(msp2)
  /\ e.lm = LmLocs(lm2)

Regs(e) == st' = e.st /\ ini' = e.ini /\ dn' = e.dn

\* Lexer::next
OpNext ==
  /\ E.op = "N"
  /\ IF E.c >= 0
     THEN p < N /\ inp[p + 1] = E.c /\ p' = p + 1
     ELSE p = N /\ p' = p
  /\ Post(E, p', msp, lm)
  /\ Regs(E) /\ UNCHANGED <<msp, lm, lead>>

\* Lexer::peek
OpPeek ==
  /\ E.op = "P"
  /\ E.c = (IF p < N THEN inp[p + 1] ELSE -1)
  /\ Post(E, p, msp, lm)
  /\ Regs(E) /\ UNCHANGED <<p, msp, lm, lead>>

\* Lexer::set_accepting_state: save the current match
OpSetAccepting ==
  /\ E.op = "SA"
  /\ lm' = <<[ms |-> msp, p |-> p]>>
  /\ Post(E, p, msp, lm')
  /\ Regs(E) /\ UNCHANGED <<p, msp, lead>>

\* Lexer::reset_accepting_state
OpResetAccepting ==
  /\ E.op = "RA"
  /\ lm' = <<>>
  /\ Post(E, p, msp, lm')
  /\ Regs(E) /\ UNCHANGED <<p, msp, lead>>

\* Lexer::reset_match
OpResetMatch ==
  /\ E.op = "RM"
  /\ msp' = p
  /\ Post(E, p, msp', lm)
  /\ Regs(E) /\ UNCHANGED <<p, lm, lead>>

\* Lexer::backtrack with a saved match: rewind to it, end-of-input is no longer handled
OpBacktrackOk ==
  /\ E.op = "BO"
  /\ lm # <<>>
  /\ p' = lm[1].p /\ msp' = lm[1].ms /\ lm' = <<>>
  /\ Post(E, p', msp', lm')
  /\ E.dn = FALSE
  /\ Regs(E) /\ UNCHANGED lead

\* Lexer::backtrack without one: the lexer goes back to Init
OpBacktrackErr ==
  /\ E.op = "BE"
  /\ lm = <<>>
  /\ Post(E, p, msp, lm)
  /\ E.st = 0 /\ E.ini = 0
  /\ Regs(E) /\ UNCHANGED <<p, msp, lm, lead>>

\* Harness markers: protocol invariants
Violated(kind, e) ==
  IF lm # <<>> THEN "NoStaleMatch"
  ELSE IF kind \in {2, 4} /\ msp # p THEN "EmptyAfterItem"
  ELSE IF kind \in {2, 4} /\ e.st # e.ini THEN "BackToEntry"
  ELSE IF kind = 3 /\ ~(e.st = 0 /\ e.ini = 0 /\ msp = p) THEN "FailureToInit"
  ELSE IF kind = 5 /\ ~e.dn THEN "NoneMeansDone"
  ELSE "ok"

OpMark ==
  /\ E.op = "M"
  /\ LET v == Violated(E.mk[1], E)
     IN  lead' = IF lead = <<>> /\ v # "ok"
                 THEN <<[at |-> l, consumed |-> p, inv |-> v, kind |-> E.mk[1]]>>
                 ELSE lead
  /\ Regs(E) /\ UNCHANGED <<p, msp, lm>>

Step ==
  /\ verdict = "run" /\ l <= Len(run.fine)
  /\ (OpNext \/ OpPeek \/ OpSetAccepting \/ OpResetAccepting \/ OpResetMatch
      \/ OpBacktrackOk \/ OpBacktrackErr \/ OpMark)
  /\ l' = l + 1
  /\ UNCHANGED <<run, verdict>>

Accept ==
  /\ verdict = "run" /\ l = Len(run.fine) + 1
  /\ verdict' = "ok"
  /\ UNCHANGED <<run, l, p, msp, lm, st, ini, dn, lead>>

\* the next recorded event is not an action of this specification
Reject ==
  /\ verdict = "run" /\ l <= Len(run.fine)
  /\ ~ENABLED Step
  /\ verdict' = "rej"
  /\ UNCHANGED <<run, l, p, msp, lm, st, ini, dn, lead>>

Next == Step \/ Accept \/ Reject

Report ==
  /\ verdict = "ok" => PrintT(<<"FINEOK", ToJson([i |-> run.i, lead |-> lead])>>)
  /\ verdict = "rej" => PrintT(<<"FINEREJ", ToJson([i |-> run.i, at |-> l, consumed |-> p, op |-> E.op, lead |-> lead])>>)

TypeOK == p \in 0..N /\ msp \in 0..p
=============================================================================

------------------------------- MODULE Lookup -------------------------------
(***************************************************************************)
(* The two membership tests the macro generates for a group of ranges that *)
(* lead to the same target (crates/lexgen/src/dfa/codegen.rs):             *)
(*   - up to MAX_GUARD_SIZE (9) ranges: a chain `x == lo` / `(lo..=hi)     *)
(*     .contains(&x)` joined by `||`;                                      *)
(*   - more: `binary_search(x, &TABLE)` with the generated comparator      *)
(*       Greater => if c <= end { Equal } else { Less }, Equal => Equal,   *)
(*       Less => Greater                                                   *)
(*     over slice::binary_search_by.                                       *)
(* Both must be exactly "c is in the union of the ranges" for every sorted *)
(* table of disjoint ranges.  TLC checks all tables over a small universe  *)
(* and all c.                                                              *)
(***************************************************************************)
EXTENDS Integers, Sequences, FiniteSets

CONSTANTS MaxP   \* universe 0..MaxP

U == 0..MaxP

VARIABLES table, c
vars == <<table, c>>

RECURSIVE TablesFrom(_)
TablesFrom(lo) ==
  IF lo > MaxP THEN {<<>>}
  ELSE {<<>>} \cup UNION { UNION { {<<[lo |-> s, hi |-> e]>> \o t : t \in TablesFrom(e + 1)} : e \in s..MaxP } : s \in lo..MaxP }

Member(t, x) == \E i \in 1..Len(t) : t[i].lo <= x /\ x <= t[i].hi

\* chain of guards
GuardChain(t, x) ==
  \E i \in 1..Len(t) : IF t[i].lo = t[i].hi THEN x = t[i].lo ELSE (t[i].lo <= x /\ x <= t[i].hi)

\* the generated comparator applied to element i: "Less" means the element is less than the target
Cmp(t, i, x) ==
  IF x > t[i].lo THEN (IF x <= t[i].hi THEN "Equal" ELSE "Less")
  ELSE IF x = t[i].lo THEN "Equal"
  ELSE "Greater"

\* slice::binary_search_by
RECURSIVE Search(_, _, _, _)
Search(t, x, left, right) ==
  IF left >= right THEN FALSE
  ELSE LET mid == left + ((right - left) \div 2)
           r   == Cmp(t, mid + 1, x)      \* 1-based sequences
       IN  IF r = "Equal" THEN TRUE
           ELSE IF r = "Less" THEN Search(t, x, mid + 1, right)
           ELSE Search(t, x, left, mid)

BinSearch(t, x) == Search(t, x, 0, Len(t))

Init == table \in TablesFrom(0) /\ c \in U
Next == UNCHANGED vars

BothExact == GuardChain(table, c) = Member(table, c) /\ BinSearch(table, c) = Member(table, c)
=============================================================================

CONSTANTS
  Progs <- MCProgs
INIT Init
NEXT Next
INVARIANTS TypeOK Bounded PrintReplay
PROPERTIES Progress Fused FailResets
CHECK_DEADLOCK FALSE

------------------------------- MODULE Stages -------------------------------
(***************************************************************************)
(* The first two compile stages of the macro, bound to the artifacts the   *)
(* real macro dumped while expanding (hooks):                              *)
(*                                                                         *)
(*  Thompson:  regex_to_nfa.rs / nfa.rs  `add_regex` / `add_re`, with the  *)
(*    code's state-allocation order, so that the NFA the specification     *)
(*    builds for a rule set must be EQUAL to the dumped one, state by      *)
(*    state (ThompsonOK).  Range transitions use the range map loops of    *)
(*    RangeMapOps (values: sets of target states), class expressions under *)
(*    `#` are evaluated with insert / insert_ranges / remove_ranges as the *)
(*    code does.                                                           *)
(*                                                                         *)
(*  Subset:  nfa_to_dfa.rs.  The work-list order is not fixed (hash        *)
(*    iteration), so the result is compared up to renaming of states: TLC  *)
(*    explores the product <<DFA state, set of NFA states>> from the       *)
(*    initial pair over the boundary representatives and end-of-input and  *)
(*    checks in every reachable pair that the DFA state accepts exactly    *)
(*    the accepting NFA states of the set in increasing order (rule        *)
(*    priority) and moves exactly when the set does: char transition >     *)
(*    covering ranges > any, merged as the code merges them (SubsetOK).    *)
(*                                                                         *)
(* Together with Bisim.tla (SimplifyOK, RenumberOK, derivative automaton)  *)
(* and Machine.tla this is the chain regex -> NFA -> DFA -> simplified DFA *)
(* -> generated code of DESIGN.md section 3.2.                             *)
(***************************************************************************)
EXTENDS RangeMapOps, TLC, Json, IOUtils

VARIABLES P, D, which, cur, S, path, mode

vars == <<P, D, which, cur, S, path, mode>>
View == <<P.id, mode, which, cur, S>>

Pairs == JsonDeserialize(IOEnv.VERIF_BISIM)

EOI == -1
MAXC == 1114111

RECURSIVE SortedSeq(_)
SortedSeq(X) == IF X = {} THEN <<>>
                ELSE LET m == CHOOSE x \in X : \A y \in X : x <= y IN <<m>> \o SortedSeq(X \ {m})

Lookup(name) == (CHOOSE i \in 1..Len(P.env) : P.env[i].n = name)

(***************************************************************************)
(* Thompson construction                                                   *)
(***************************************************************************)
EmptyNfa == [n |-> 1, chr |-> {}, rng |-> <<>>, eps |-> {}, any |-> {}, eoi |-> {}, acc |-> {}]

NewState(nfa) == [nfa EXCEPT !.n = @ + 1]       \* the new state is nfa.n
RngOf(nfa, s) == IF s \in DOMAIN nfa.rng THEN nfa.rng[s] ELSE <<>>
SetRng(nfa, s, m) == [nfa EXCEPT !.rng = [x \in DOMAIN nfa.rng \cup {s} |-> IF x = s THEN m ELSE nfa.rng[x]]]
AddChr(nfa, s, c, t) == [nfa EXCEPT !.chr = @ \cup {<<s, c, t>>}]
AddEps(nfa, s, t) == [nfa EXCEPT !.eps = @ \cup {<<s, t>>}]
AddRange(nfa, s, lo, hi, t) == SetRng(nfa, s, Insert(RngOf(nfa, s), lo, hi, {t}))
\* add_range_transitions(state, map of unit values, next)
AddRanges(nfa, s, m, t) ==
  SetRng(nfa, s, InsertRanges(RngOf(nfa, s), [i \in 1..Len(m) |-> Rng(m[i].s, m[i].e, {t})]))

\* regex_to_range_map: class expressions as range maps with the unit value
U == {0}
RECURSIVE ClassMap(_), SetItems(_, _, _)
SetItems(items, i, m) ==
  IF i > Len(items) THEN m ELSE SetItems(items, i + 1, Insert(m, items[i].lo, items[i].hi, U))
ClassMap(re) ==
  CASE re.k = "chr"  -> Insert(<<>>, re.c, re.c, U)
    [] re.k = "set"  -> SetItems(re.items, 1, <<>>)
    [] re.k = "any"  -> Insert(<<>>, 0, MAXC, U)
    [] re.k = "alt"  -> InsertRanges(ClassMap(re.a), ClassMap(re.b))
    [] re.k = "diff" -> RemoveRanges(ClassMap(re.a), ClassMap(re.b))
    [] re.k = "var"  -> ClassMap(P.env[Lookup(re.n)].re)

RECURSIVE AddRe(_, _, _, _), AddStr(_, _, _, _, _), AddSet(_, _, _, _, _)
AddStr(nfa, s, i, c, cont) ==       \* characters s[i..] from state c
  IF i > Len(s) THEN nfa
  ELSE IF i = Len(s) THEN AddChr(nfa, c, s[i], cont)
  ELSE LET n1 == NewState(nfa) IN AddStr(AddChr(n1, c, s[i], nfa.n), s, i + 1, nfa.n, cont)

AddSet(nfa, items, i, c, cont) ==
  IF i > Len(items) THEN nfa
  ELSE IF items[i].lo = items[i].hi
       THEN AddSet(AddChr(nfa, c, items[i].lo, cont), items, i + 1, c, cont)
       ELSE AddSet(AddRange(nfa, c, items[i].lo, items[i].hi, cont), items, i + 1, c, cont)

AddRe(nfa, re, c, cont) ==
  CASE re.k = "chr"  -> AddChr(nfa, c, re.c, cont)
    [] re.k = "str"  -> AddStr(nfa, re.s, 1, c, cont)
    [] re.k = "set"  -> AddSet(nfa, re.items, 1, c, cont)
    [] re.k = "any"  -> [nfa EXCEPT !.any = @ \cup {<<c, cont>>}]
    [] re.k = "eoi"  -> [nfa EXCEPT !.eoi = @ \cup {<<c, cont>>}]
    [] re.k = "diff" -> AddRanges(nfa, c, ClassMap(re), cont)
    [] re.k = "var"  -> AddRe(nfa, P.env[Lookup(re.n)].re, c, cont)
    [] re.k = "star" ->
         LET n1 == NewState(nfa)          \* re_init = nfa.n
             n2 == NewState(n1)           \* re_cont = nfa.n + 1
             n3 == AddRe(n2, re.a, nfa.n, nfa.n + 1)
         IN  AddEps(AddEps(AddEps(AddEps(n3, c, cont), c, nfa.n), nfa.n + 1, cont), nfa.n + 1, nfa.n)
    [] re.k = "plus" ->
         LET n1 == NewState(nfa)
             n2 == NewState(n1)
             n3 == AddRe(n2, re.a, nfa.n, nfa.n + 1)
         IN  AddEps(AddEps(AddEps(n3, c, nfa.n), nfa.n + 1, cont), nfa.n + 1, nfa.n)
    [] re.k = "opt"  ->
         LET n1 == NewState(nfa)
             n2 == AddRe(n1, re.a, nfa.n, cont)
         IN  AddEps(AddEps(n2, c, cont), c, nfa.n)
    [] re.k = "cat"  ->
         LET n1 == NewState(nfa)          \* re1_cont = nfa.n
             n2 == AddRe(n1, re.a, c, nfa.n)
         IN  AddRe(n2, re.b, nfa.n, cont)
    [] re.k = "alt"  ->
         LET n1 == NewState(nfa)          \* re1_init = nfa.n
             n2 == NewState(n1)           \* re2_init = nfa.n + 1
             n3 == AddRe(n2, re.a, nfa.n, cont)
             n4 == AddRe(n3, re.b, nfa.n + 1, cont)
         IN  AddEps(AddEps(n4, c, nfa.n), c, nfa.n + 1)

\* NFA::add_regex
AddRegex(nfa, re, rule, ctx) ==
  LET n1 == NewState(nfa)                 \* accepting state = nfa.n
      n2 == [n1 EXCEPT !.acc = @ \cup {[s |-> nfa.n, rule |-> rule, ctx |-> ctx]}]
      n3 == NewState(n2)                  \* initial state of the regex = nfa.n + 1
      n4 == AddEps(n3, 0, nfa.n + 1)
  IN  AddRe(n4, re, nfa.n + 1, nfa.n)

\* context indices are handed out in the order in which rules with a context are compiled
CtxIndex(r) == IF P.rules[r].ctx = <<>> THEN -1
               ELSE Cardinality({x \in 1..(r - 1) : P.rules[x].ctx # <<>>})

RECURSIVE AddRules(_, _, _)
AddRules(nfa, rules, i) ==
  IF i > Len(rules) THEN nfa
  ELSE LET r == rules[i] + 1
       IN  AddRules(AddRegex(nfa, P.rules[r].re, r - 1, CtxIndex(r)), rules, i + 1)

SpecNfa(set) == AddRules(EmptyNfa, P.sets[set].rules, 1)

\* the dump's shape
AsDump(nfa) ==
  [s \in 1..nfa.n |->
     LET st == s - 1
         cs == {x[2] : x \in {y \in nfa.chr : y[1] = st}}
     IN  [chars  |-> [i \in 1..Cardinality(cs) |->
                        LET c == SortedSeq(cs)[i]
                        IN  [c |-> c, t |-> SortedSeq({x[3] : x \in {y \in nfa.chr : y[1] = st /\ y[2] = c}})]],
          ranges |-> LET m == RngOf(nfa, st)
                     IN  [i \in 1..Len(m) |-> [lo |-> m[i].s, hi |-> m[i].e, t |-> SortedSeq(m[i].v)]],
          eps    |-> SortedSeq({x[2] : x \in {y \in nfa.eps : y[1] = st}}),
          any    |-> SortedSeq({x[2] : x \in {y \in nfa.any : y[1] = st}}),
          eoi    |-> SortedSeq({x[2] : x \in {y \in nfa.eoi : y[1] = st}}),
          acc    |-> LET a == {y \in nfa.acc : y.s = st}
                     IN  IF a = {} THEN <<>>
                         ELSE LET z == CHOOSE y \in a : TRUE IN <<[rule |-> z.rule, ctx |-> z.ctx]>>]]

ThompsonOK == \A set \in 1..Len(P.sets) : AsDump(SpecNfa(set)) = D.nfa[set]

(***************************************************************************)
(* Subset construction: product of the dumped DFA (before simplification)  *)
(* with sets of states of the dumped NFA                                   *)
(***************************************************************************)
Nfa == D.nfa[which]
Symbols == {P.reps[i] : i \in 1..Len(P.reps)} \cup {EOI}
SeqSet(s) == {s[i] : i \in 1..Len(s)}

RECURSIVE Closure(_, _)
Closure(frontier, seen) ==
  IF frontier = {} THEN seen
  ELSE LET nxt == (UNION {SeqSet(Nfa[s + 1].eps) : s \in frontier}) \ seen
       IN  Closure(nxt, seen \cup nxt)

Move(X, sym) ==
  LET tgt == UNION {
        IF sym = EOI THEN SeqSet(Nfa[s + 1].eoi)
        ELSE (UNION {SeqSet(Nfa[s + 1].chars[i].t) : i \in {j \in 1..Len(Nfa[s + 1].chars) : Nfa[s + 1].chars[j].c = sym}})
             \cup (UNION {SeqSet(Nfa[s + 1].ranges[i].t) :
                            i \in {j \in 1..Len(Nfa[s + 1].ranges) : Nfa[s + 1].ranges[j].lo <= sym /\ sym <= Nfa[s + 1].ranges[j].hi}})
             \cup SeqSet(Nfa[s + 1].any)
        : s \in X}
  IN  Closure(tgt, tgt)

EntryPre(set) ==
  IF Len(D.entry_pre) = 0 THEN 0
  ELSE D.entry_pre[CHOOSE i \in 1..Len(D.entry_pre) : D.entry_pre[i].name = P.sets[set].name].idx

DLookup(q, sym) ==
  LET st == D.dfa_pre[q + 1] IN
  IF sym = EOI THEN st.eoi
  ELSE LET cs == {i \in 1..Len(st.chars) : st.chars[i].c = sym} IN
       IF cs # {} THEN <<st.chars[CHOOSE i \in cs : TRUE].t>>
       ELSE LET rs == {i \in 1..Len(st.ranges) : st.ranges[i].lo <= sym /\ sym <= st.ranges[i].hi} IN
            IF rs # {} THEN <<st.ranges[CHOOSE i \in rs : TRUE].t>>
            ELSE st.any

Init ==
  /\ LET ps == Pairs IN \E i \in 1..Len(ps) : P = ps[i].prog /\ D = ps[i].dump
  /\ mode = "subset"
  /\ which \in 1..Len(P.sets)
  /\ cur = EntryPre(which)
  /\ S = Closure({0}, {0})
  /\ path = <<>>

Next ==
  \E sym \in Symbols :
    /\ DLookup(cur, sym) # <<>>
    /\ cur' = DLookup(cur, sym)[1].s
    /\ S' = Move(S, sym)
    /\ path' = Append(path, sym)
    /\ UNCHANGED <<P, D, which, mode>>

\* accepting NFA states of the set, in increasing order: their values in that order
AccOf(X) ==
  LET a == SortedSeq({s \in X : Len(Nfa[s + 1].acc) > 0})
  IN  [i \in 1..Len(a) |-> Nfa[a[i] + 1].acc[1]]

SubsetAccept == D.dfa_pre[cur + 1].acc = AccOf(S)
SubsetMoves == \A sym \in Symbols : (DLookup(cur, sym) # <<>>) <=> (Move(S, sym) # {})

Report ==
  /\ (~(SubsetAccept /\ SubsetMoves)) =>
        PrintT(<<"BADSUBSET", ToJson([p |-> P.id, which |-> which, path |-> path, state |-> cur,
                                      acc |-> SubsetAccept, moves |-> SubsetMoves])>>)
  /\ (path = <<>> /\ which = 1) =>
        \* definitions that use built-in classes are skipped (their tables are not part of the spec)
        PrintT(<<"STAGE", ToJson([p |-> P.id, thompson |-> IF P.nobi THEN ThompsonOK ELSE TRUE])>>)
=============================================================================

CONSTANTS
  MaxStates = 3
SPECIFICATION MCSpec
INVARIANTS ResultCorrect
PROPERTIES Monotone Terminates
CHECK_DEADLOCK FALSE

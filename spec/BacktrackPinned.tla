--------------------------- MODULE BacktrackPinned ---------------------------
(***************************************************************************)
(* The work-list analysis as it was on the pinned tree (a named deviation, *)
(* kept for the record and as a self-test of Backtrack.tla's properties):  *)
(* a state's recorded flag is overwritten by whatever flag it is popped    *)
(* with, so it can go from true back to false.  TLC must find that this    *)
(* variant violates Monotone and ResultCorrect and does not terminate for  *)
(* some graph and some processing order (the check fails if it does not).  *)
(***************************************************************************)
EXTENDS Backtrack

VisitPinned(s, b) ==
  /\ work[<<s, b>>] > 0
  /\ LET rest == BagDel(work, <<s, b>>)
         succFlag == IF b = 1 \/ s \in g.acc THEN 1 ELSE 0
         push == [p \in DOMAIN rest |-> rest[p] + (IF p[2] = succFlag THEN Mult(g, s, p[1]) ELSE 0)]
     IN  IF visited[s] = b
         THEN visited' = visited /\ work' = rest
         ELSE visited' = [visited EXCEPT ![s] = b] /\ work' = push
  /\ UNCHANGED g

NextPinned == \E s \in States(g), b \in {0, 1} : VisitPinned(s, b)
PinnedSpec == MCInit /\ [][NextPinned]_vars /\ WF_vars(NextPinned)
=============================================================================

INIT Init
NEXT Next
VIEW View
INVARIANTS Report
CHECK_DEADLOCK FALSE

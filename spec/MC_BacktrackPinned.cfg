CONSTANTS
  MaxStates = 3
SPECIFICATION PinnedSpec
INVARIANTS ResultCorrect
PROPERTIES Monotone
CHECK_DEADLOCK FALSE

INIT RInit
NEXT RNext
INVARIANTS RecordedMatches
CHECK_DEADLOCK FALSE

------------------------------- MODULE Chars -------------------------------
(***************************************************************************)
(* Characters are Unicode scalar values (naturals); strings are sequences  *)
(* of them.  This module is the reference meaning of a location (line,     *)
(* column, byte index): the left fold of Advance over the input from its   *)
(* beginning.  Widths are facts about Unicode (East Asian Width, general    *)
(* category) written down for the characters the location alphabet uses;   *)
(* every other printable character has width 1.                            *)
(***************************************************************************)
EXTENDS Naturals, Sequences

NL  == 10
TAB == 9

Bytes(c) == IF c < 128 THEN 1 ELSE IF c < 2048 THEN 2 ELSE IF c < 65536 THEN 3 ELSE 4

\* Display width of a character other than newline and tab.  Zero-width: combining acute
\* U+0301, zero-width space U+200B, zero-width joiner U+200D.  Double-width: CJK U+6F22,
\* hiragana U+3042, fullwidth A U+FF21, emoji U+1F600.  Control characters have no width and
\* count as 1 (the library's documented fallback).
Width(c) ==
  IF c \in {769, 8203, 8205} THEN 0
  ELSE IF c \in {28450, 12354, 65313, 128512} THEN 2
  ELSE 1

ZeroLoc == [l |-> 0, c |-> 0, b |-> 0]

Advance(loc, ch) ==
  IF ch = NL THEN [l |-> loc.l + 1, c |-> 0, b |-> loc.b + 1]
  ELSE IF ch = TAB THEN [l |-> loc.l, c |-> loc.c + 4, b |-> loc.b + 1]
  ELSE [l |-> loc.l, c |-> loc.c + Width(ch), b |-> loc.b + Bytes(ch)]

\* Location after the first i characters of inp.
RECURSIVE LocAt(_, _)
LocAt(inp, i) == IF i = 0 THEN ZeroLoc ELSE Advance(LocAt(inp, i - 1), inp[i])

LocSeq(loc) == <<loc.l, loc.c, loc.b>>
=============================================================================

------------------------------- MODULE Chars -------------------------------
(***************************************************************************)
(* Characters are Unicode scalar values (naturals); strings are sequences  *)
(* of them.  This module is the reference meaning of a location (line,     *)
(* column, byte index): the left fold of Advance over the input from its   *)
(* beginning.  Widths are facts about Unicode (East Asian Width, general    *)
(* category) written down for the characters the location alphabet uses;   *)
(* every other printable character has width 1.                            *)
(***************************************************************************)
EXTENDS Naturals, Sequences

NL  == 10
TAB == 9

Bytes(c) == IF c < 128 THEN 1 ELSE IF c < 2048 THEN 2 ELSE IF c < 65536 THEN 3 ELSE 4

\* Display width of a character other than newline and tab (facts about Unicode, as the
\* unicode-width crate reports them).  Zero-width: soft hyphen U+00AD, combining grave / acute
\* U+0300 / U+0301, Hangul jungseong filler U+1160, zero-width space U+200B, zero-width joiner
\* U+200D, byte-order mark U+FEFF.  Double-width: Hangul choseong U+1100 / U+115F, ideographic
\* space U+3000, hiragana U+3042, CJK U+6F22, fullwidth ! U+FF01, fullwidth A U+FF21, emoji
\* U+1F600.  Control characters (U+0000..U+001F, U+007F..U+009F) have no width and count as 1
\* (the library's documented fallback); so do all other characters used by the families (the
\* UTF-8 length boundaries U+007F/U+0080, U+07FF/U+0800, U+FFFF/U+10000, both sides of the
\* surrogate gap, U+10FFFF, the line separators U+2028/U+2029).
Width(c) ==
  IF c \in {173, 768, 769, 4448, 8203, 8205, 65279} THEN 0
  ELSE IF c \in {4352, 4447, 12288, 12354, 28450, 65281, 65313, 128512} THEN 2
  ELSE 1

ZeroLoc == [l |-> 0, c |-> 0, b |-> 0]

Advance(loc, ch) ==
  IF ch = NL THEN [l |-> loc.l + 1, c |-> 0, b |-> loc.b + 1]
  ELSE IF ch = TAB THEN [l |-> loc.l, c |-> loc.c + 4, b |-> loc.b + 1]
  ELSE [l |-> loc.l, c |-> loc.c + Width(ch), b |-> loc.b + Bytes(ch)]

\* Location after the first i characters of inp.
RECURSIVE LocAt(_, _)
LocAt(inp, i) == IF i = 0 THEN ZeroLoc ELSE Advance(LocAt(inp, i - 1), inp[i])

LocSeq(loc) == <<loc.l, loc.c, loc.b>>
=============================================================================

CONSTANTS
  MaxStates = 1
INIT TraceInit
NEXT TraceNext
INVARIANTS PrintAccept AcceptedCorrect
PROPERTIES Monotone
CHECK_DEADLOCK FALSE

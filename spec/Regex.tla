------------------------------- MODULE Regex -------------------------------
(***************************************************************************)
(* Meaning of lexgen regular expressions, as the README documents them.    *)
(*                                                                         *)
(* A regex is a record with a tag k:                                       *)
(*   chr(c) str(s) set(items: <<[lo,hi]>>) any eoi bi(n) diff(a,b)         *)
(*   cat(a,b) alt(a,b) star(a) plus(a) opt(a) var(n)   (eps is internal)   *)
(*                                                                         *)
(* Words are over the characters plus the end-of-input symbol EOI, which   *)
(* only `$` matches and which can only be the last symbol of a word.       *)
(*                                                                         *)
(* Two independent definitions are given:                                  *)
(*   - Ends(re, ext, i): declarative, the set of positions j such that     *)
(*     ext[i+1..j] is in L(re) (README reading of each operator);          *)
(*   - PD(re, s): Antimirov partial derivatives, the reference automaton.  *)
(* Their agreement is checked by TLC (MC_Regex), so the oracle used for    *)
(* the implementation is itself checked against the documented meaning.    *)
(***************************************************************************)
EXTENDS Integers, Sequences, FiniteSets

CONSTANTS Env,       \* sequence of [n |-> name, re |-> regex]: `let` bindings
          Builtins   \* record: built-in name |-> sequence of <<lo, hi>>

EOI == -1

Eps == [k |-> "eps"]

Lookup(name) == (CHOOSE i \in 1..Len(Env) : Env[i].n = name)

InBuiltin(name, c) ==
  LET tab == Builtins[name]
  IN  \E i \in 1..Len(tab) : tab[i][1] <= c /\ c <= tab[i][2]

(***************************************************************************)
(* Character classes: exact sets of scalar values.                         *)
(***************************************************************************)
RECURSIVE InClass(_, _)
InClass(re, c) ==
  CASE re.k = "chr"  -> c = re.c
    [] re.k = "set"  -> \E i \in 1..Len(re.items) : re.items[i].lo <= c /\ c <= re.items[i].hi
    [] re.k = "any"  -> TRUE
    [] re.k = "bi"   -> InBuiltin(re.n, c)
    [] re.k = "alt"  -> InClass(re.a, c) \/ InClass(re.b, c)
    [] re.k = "diff" -> InClass(re.a, c) /\ ~InClass(re.b, c)
    [] re.k = "var"  -> InClass(Env[Lookup(re.n)].re, c)

ClassKinds == {"set", "any", "bi", "diff"}

(***************************************************************************)
(* Declarative semantics: end positions.  ext is the input followed by     *)
(* EOI; positions range over 0..Len(ext).                                  *)
(***************************************************************************)
RECURSIVE Ends(_, _, _), StarEnds(_, _, _, _)

Ends(re, ext, i) ==
  LET n == Len(ext) - 1 IN
  CASE re.k = "eps"  -> {i}
    [] re.k = "chr"  -> IF i < n /\ ext[i+1] = re.c THEN {i+1} ELSE {}
    [] re.k = "str"  -> LET m == Len(re.s) IN
                        IF i + m <= n /\ SubSeq(ext, i+1, i+m) = re.s THEN {i+m} ELSE {}
    [] re.k \in ClassKinds -> IF i < n /\ InClass(re, ext[i+1]) THEN {i+1} ELSE {}
    [] re.k = "eoi"  -> IF i = n THEN {n+1} ELSE {}
    [] re.k = "cat"  -> UNION {Ends(re.b, ext, m) : m \in Ends(re.a, ext, i)}
    [] re.k = "alt"  -> Ends(re.a, ext, i) \cup Ends(re.b, ext, i)
    [] re.k = "opt"  -> {i} \cup Ends(re.a, ext, i)
    [] re.k = "star" -> StarEnds(re.a, ext, {i}, {i})
    [] re.k = "plus" -> LET first == Ends(re.a, ext, i) IN StarEnds(re.a, ext, first, first)
    [] re.k = "var"  -> Ends(Env[Lookup(re.n)].re, ext, i)

\* Least fixpoint of "one more repetition", from the frontier, accumulating in acc.
StarEnds(a, ext, frontier, acc) ==
  IF frontier = {} THEN acc
  ELSE LET nxt == (UNION {Ends(a, ext, m) : m \in frontier}) \ acc
       IN  StarEnds(a, ext, nxt, acc \cup nxt)

(***************************************************************************)
(* Viable proper prefixes: Open(re, ext, i) is the set of positions j such *)
(* that ext[i+1..j] is a PROPER prefix of some word of L(re), i.e. a scan  *)
(* that has read ext[i+1..j] can still read a symbol.  Exact when no       *)
(* sub-expression has an empty language (no empty class), which is part of *)
(* well-formedness.  Plus(a) is a a*.                                      *)
(***************************************************************************)
RECURSIVE Open(_, _, _)
Open(re, ext, i) ==
  LET n == Len(ext) - 1 IN
  CASE re.k = "eps"  -> {}
    [] re.k = "str"  -> {i + m : m \in {q \in 0..(Len(re.s) - 1) :
                                          i + q <= n /\ SubSeq(ext, i+1, i+q) = SubSeq(re.s, 1, q)}}
    [] re.k \in {"chr", "eoi"} \cup ClassKinds -> {i}
    [] re.k = "cat"  -> Open(re.a, ext, i) \cup UNION {Open(re.b, ext, m) : m \in Ends(re.a, ext, i)}
    [] re.k = "alt"  -> Open(re.a, ext, i) \cup Open(re.b, ext, i)
    [] re.k = "opt"  -> Open(re.a, ext, i)
    [] re.k = "star" -> UNION {Open(re.a, ext, m) : m \in StarEnds(re.a, ext, {i}, {i})}
    [] re.k = "plus" -> LET first == Ends(re.a, ext, i)
                        IN  UNION {Open(re.a, ext, m) : m \in {i} \cup StarEnds(re.a, ext, first, first)}
    [] re.k = "var"  -> Open(Env[Lookup(re.n)].re, ext, i)

(***************************************************************************)
(* Reference automaton: Antimirov partial derivatives.                     *)
(***************************************************************************)
RECURSIVE Nullable(_)
Nullable(re) ==
  CASE re.k = "eps"  -> TRUE
    [] re.k = "str"  -> re.s = <<>>
    [] re.k = "cat"  -> Nullable(re.a) /\ Nullable(re.b)
    [] re.k = "alt"  -> Nullable(re.a) \/ Nullable(re.b)
    [] re.k \in {"star", "opt"} -> TRUE
    [] re.k = "plus" -> Nullable(re.a)
    [] re.k = "var"  -> Nullable(Env[Lookup(re.n)].re)
    [] OTHER -> FALSE

MkCat(t, b) == IF t.k = "eps" THEN b ELSE [k |-> "cat", a |-> t, b |-> b]

RECURSIVE PD(_, _)
PD(re, s) ==
  CASE re.k = "eps"  -> {}
    [] re.k = "chr"  -> IF s = re.c THEN {Eps} ELSE {}
    [] re.k = "str"  -> IF re.s # <<>> /\ re.s[1] = s
                        THEN {IF Len(re.s) = 1 THEN Eps ELSE [k |-> "str", s |-> Tail(re.s)]}
                        ELSE {}
    [] re.k \in ClassKinds -> IF s # EOI /\ InClass(re, s) THEN {Eps} ELSE {}
    [] re.k = "eoi"  -> IF s = EOI THEN {Eps} ELSE {}
    [] re.k = "cat"  -> {MkCat(t, re.b) : t \in PD(re.a, s)}
                        \cup (IF Nullable(re.a) THEN PD(re.b, s) ELSE {})
    [] re.k = "alt"  -> PD(re.a, s) \cup PD(re.b, s)
    [] re.k = "opt"  -> PD(re.a, s)
    [] re.k \in {"star", "plus"} ->
         {MkCat(t, [k |-> "star", a |-> re.a]) : t \in PD(re.a, s)}
    [] re.k = "var"  -> PD(Env[Lookup(re.n)].re, s)

\* A term that still has a symbol to read (its language is not a subset of {empty word}).
\* Exact for regexes without empty classes, which is part of well-formedness.
RECURSIVE HasSym(_)
HasSym(re) ==
  CASE re.k = "eps"  -> FALSE
    [] re.k = "str"  -> re.s # <<>>
    [] re.k \in {"cat", "alt"} -> HasSym(re.a) \/ HasSym(re.b)
    [] re.k \in {"star", "plus", "opt"} -> HasSym(re.a)
    [] re.k = "var"  -> HasSym(Env[Lookup(re.n)].re)
    [] OTHER -> TRUE

\* Derivative of a set of terms by a word.
RECURSIVE PDWord(_, _)
PDWord(terms, w) ==
  IF w = <<>> THEN terms
  ELSE PDWord(UNION {PD(t, w[1]) : t \in terms}, Tail(w))

\* Ends, computed with derivatives (for the consistency theorem).
EndsByPD(re, ext, i) ==
  {j \in i..Len(ext) : \E t \in PDWord({re}, SubSeq(ext, i+1, j)) : Nullable(t)}

\* Open, computed with derivatives (for the consistency theorem).
OpenByPD(re, ext, i) ==
  {j \in i..Len(ext) : \E t \in PDWord({re}, SubSeq(ext, i+1, j)) : HasSym(t)}

(***************************************************************************)
(* Syntactic well-formedness of a rule regex (the quantifier of the        *)
(* behavioural properties): `$` only in tail position, no empty match.     *)
(***************************************************************************)
RECURSIVE HasEoi(_), TailOnly(_)
HasEoi(re) ==
  CASE re.k = "eoi" -> TRUE
    [] re.k \in {"cat", "alt"} -> HasEoi(re.a) \/ HasEoi(re.b)
    [] re.k \in {"star", "plus", "opt"} -> HasEoi(re.a)
    [] re.k = "var" -> HasEoi(Env[Lookup(re.n)].re)
    [] OTHER -> FALSE

TailOnly(re) ==
  CASE re.k = "cat" -> ~HasEoi(re.a) /\ TailOnly(re.b)
    [] re.k = "alt" -> TailOnly(re.a) /\ TailOnly(re.b)
    [] re.k = "opt" -> TailOnly(re.a)
    [] re.k \in {"star", "plus"} -> ~HasEoi(re.a)
    [] re.k = "var" -> TailOnly(Env[Lookup(re.n)].re)
    [] OTHER -> TRUE
=============================================================================

INIT Init
NEXT Next
INVARIANTS Disjoint
CHECK_DEADLOCK FALSE

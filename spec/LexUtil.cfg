INIT Init
NEXT Next
INVARIANTS TypeOK Report
CHECK_DEADLOCK FALSE

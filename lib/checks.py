"""Per-property checks. Each returns an Outcome; `check` turns it into exit code, VIOLATION /
KNOWN-FINDING lines and the evidence file."""

import json
import os
import time

import families as F
from common import (BUILD, ToolError, load_known_findings, log, write_evidence, write_replay)
from pipeline import replay_family
from progs import Program


class Outcome:
    def __init__(self, pid, level="model_checking"):
        self.pid = pid
        self.level = level
        self.violations = []     # dicts: key, desc, payload
        self.coverage = {}
        self.assumptions = []
        self.notes = []


# ---------------------------------------------------------------------------------------------
# Observation projections (DESIGN 2.2): a check judges only its own property.
# ---------------------------------------------------------------------------------------------

def b(loc):
    return loc[2]


def proj_tokens(evs, stop_at_invalid=True, with_errors_loc=False):
    """(rule, lexeme byte span) of every action invocation and token; error kinds."""
    out = []
    for e in evs:
        k = e["k"]
        if k == "A":
            out.append(("A", e["r"], b(e["ms"]), b(e["me"])))
        elif k == "T":
            out.append(("T", e["r"], b(e["s"]), b(e["e"])))
        elif k == "I":
            out.append(("I", b(e["at"])) if with_errors_loc else ("I",))
            if stop_at_invalid:
                break
        elif k == "C":
            out.append(("C", e["r"], b(e["at"])) if with_errors_loc else ("C", e["r"]))
        elif k == "N":
            out.append(("N",))
        elif k in "PH":
            out.append((k,))
            break
    return out


def first_divergence(exp, act):
    n = min(len(exp), len(act))
    for i in range(n):
        if exp[i] != act[i]:
            return i
    return n if len(exp) != len(act) else -1


def strip_lx(evs):
    out = []
    for e in evs:
        e = dict(e)
        e.pop("lx", None)
        out.append(e)
    return out


def replay_violations(out, fr, proj, byid, what, max_report=5):
    """Turn mismatches whose projection differs into violations; count the others."""
    other = 0
    seen_progs = set()
    for m in fr.mismatches:
        req = m["req"]
        exp = req["ev"]
        act = strip_lx(m["actual"])
        pe, pa = proj(exp), proj(act)
        if pe == pa:
            other += 1
            continue
        prog = byid[req["p"]]
        key = "prog=%s input=%s script=%s ctor=%d" % (
            prog.body().replace("\n", " ").replace("  ", " "), req["inp"], req["script"], req["ctor"])
        if len(out.violations) < 200:
            out.violations.append({
                "key": key,
                "desc": "%s: program %d input %s: expected %s, real lexer gave %s" % (
                    what, req["p"], req["inp"], pe[:8], pa[:8]),
                "payload": {
                    "kind": "replay", "program": prog.to_json(), "src": prog.body(),
                    "input": req["inp"], "script": req["script"], "ctor": req["ctor"],
                    "clone_at": req["clone_at"], "sched": req["sched"],
                    "expected": exp, "actual": act,
                    "first_divergence": first_divergence(pe, pa),
                },
            })
    return other


def base_coverage(fr, rule):
    tlc = fr.tlc
    return {
        "states": tlc.distinct,
        "transitions": tlc.states,
        "traces_validated_against_impl": fr.ok_runs,
        "programs": fr.programs,
        "behaviours_enumerated": fr.behaviours,
        "runs_replayed": fr.runs,
        "mismatching_runs": len(fr.mismatches),
        "build_failures": fr.build_failures[:10],
        "rule": rule,
        "samples": fr.samples,
        "tlc_cmd": tlc.cmd,
        "tlc_wall_s": round(tlc.wall, 1),
        "build_wall_s": round(fr.build_wall, 1),
        "run_wall_s": round(fr.run_wall, 2),
        "exhaustive": True,
    }


def sizes(tier, quick, thorough):
    return thorough if tier == "thorough" else quick


# ---------------------------------------------------------------------------------------------
# C01
# ---------------------------------------------------------------------------------------------

def check_C01(tier, seed):
    out = Outcome("C01")
    n, k = sizes(tier, (70, 4), (900, 5))
    progs = F.fixed_mm(1) + F.random_mm(seed, n, 100, k=k)
    byid = {p.id: p for p in progs}
    fr = replay_family("C01", progs, workers=8 if tier == "quick" else 14,
                       tlc_timeout=600 if tier == "quick" else 3000)
    other = replay_violations(out, fr, proj_tokens, byid, "token sequence differs from the maximal-munch reference")
    for f in fr.build_failures:
        out.notes.append("program %d dropped: %s (%s) -- judged by C12" % (f["program"], f["kind"], f["message"][:100]))
    out.coverage = base_coverage(
        fr, "programs: 10 fixed maximal-munch shapes + seeded random 2-6 rule single-rule-set "
            "definitions; inputs: every string of length <= k over the program's alphabet; "
            "TLC enumerates every behaviour of RefLexer.tla (one state per match attempt), each "
            "expected trace is replayed into the real generated lexer; a trace counts when the "
            "projected (rule, lexeme span) sequence was compared")
    out.coverage["mismatches_outside_projection"] = other
    out.coverage["dropped_programs"] = len(fr.build_failures)
    return out


def setup():
    """Warm the cargo target directory (dependencies, lexgen with hooks) and check the tools."""
    import subprocess
    from pipeline import build_family
    progs = F.fixed_mm(1)[:1]
    ws, batches, failures = build_family("setup", progs)
    if failures:
        raise ToolError("setup: the smoke-test lexer failed to build: %s" % failures)
    cp = subprocess.run(["java", "-version"], capture_output=True, text=True)
    if cp.returncode != 0:
        raise ToolError("java not available")


CHECKS = {
    "C01": check_C01,
}

"""Per-property checks. Each returns an Outcome; `check` turns it into exit code, VIOLATION /
KNOWN-FINDING lines and the evidence file."""

import json
import os
import time

import families as F
from common import (BUILD, ToolError, load_known_findings, log, write_evidence, write_replay)
from pipeline import replay_family
from progs import Program


class Outcome:
    def __init__(self, pid, level="model_checking"):
        self.pid = pid
        self.level = level
        self.violations = []     # dicts: key, desc, payload
        self.coverage = {}
        self.assumptions = []
        self.notes = []


# ---------------------------------------------------------------------------------------------
# Observation projections (DESIGN 2.2): a check judges only its own property.
# ---------------------------------------------------------------------------------------------

def b(loc):
    return loc[2]


def proj_tokens(evs, stop_at_invalid=True, with_errors_loc=False):
    """(rule, lexeme byte span) of every action invocation and token; error kinds."""
    out = []
    for e in evs:
        k = e["k"]
        if k == "A":
            out.append(("A", e["r"], b(e["ms"]), b(e["me"])))
        elif k == "T":
            out.append(("T", e["r"], b(e["s"]), b(e["e"])))
        elif k == "I":
            out.append(("I", b(e["at"])) if with_errors_loc else ("I",))
            if stop_at_invalid:
                break
        elif k == "C":
            out.append(("C", e["r"], b(e["at"])) if with_errors_loc else ("C", e["r"]))
        elif k == "N":
            out.append(("N",))
        elif k in "PH":
            out.append((k,))
            break
    return out


def first_divergence(exp, act):
    n = min(len(exp), len(act))
    for i in range(n):
        if exp[i] != act[i]:
            return i
    return n if len(exp) != len(act) else -1


def strip_lx(evs):
    out = []
    for e in evs:
        e = dict(e)
        e.pop("lx", None)
        out.append(e)
    return out


def replay_violations(out, fr, proj, byid, what, max_report=5):
    """Turn mismatches whose projection differs into violations; count the others."""
    other = 0
    seen_progs = set()
    for m in fr.mismatches:
        req = m["req"]
        exp = req["ev"]
        act = strip_lx(m["actual"])
        pe, pa = proj(exp), proj(act)
        if pe == pa:
            other += 1
            continue
        prog = byid[req["p"]]
        key = "prog=%s input=%s script=%s ctor=%d" % (
            prog.body().replace("\n", " ").replace("  ", " "), req["inp"], req["script"], req["ctor"])
        if len(out.violations) < 200:
            out.violations.append({
                "key": key,
                "desc": "%s: program %d input %s: expected %s, real lexer gave %s" % (
                    what, req["p"], req["inp"], pe[:8], pa[:8]),
                "payload": {
                    "kind": "replay", "program": prog.to_json(), "src": prog.body(),
                    "input": req["inp"], "script": req["script"], "ctor": req["ctor"],
                    "clone_at": req["clone_at"], "sched": req["sched"],
                    "expected": exp, "actual": act,
                    "first_divergence": first_divergence(pe, pa),
                },
            })
    return other


def base_coverage(fr, rule):
    tlc = fr.tlc
    return {
        "states": tlc.distinct,
        "transitions": tlc.states,
        "traces_validated_against_impl": fr.ok_runs,
        "programs": fr.programs,
        "behaviours_enumerated": fr.behaviours,
        "runs_replayed": fr.runs,
        "mismatching_runs": len(fr.mismatches),
        "build_failures": fr.build_failures[:10],
        "rule": rule,
        "samples": fr.samples,
        "tlc_cmd": tlc.cmd,
        "tlc_wall_s": round(tlc.wall, 1),
        "build_wall_s": round(fr.build_wall, 1),
        "run_wall_s": round(fr.run_wall, 2),
        "exhaustive": True,
    }


def sizes(tier, quick, thorough):
    return thorough if tier == "thorough" else quick


def loc3(l):
    return tuple(l)


def proj_c04(evs):
    out = []
    for e in evs:
        k = e["k"]
        if k == "A":
            out.append(("A", e["r"], b(e["ms"]), b(e["me"]), e["pk"]))
        elif k == "T":
            out.append(("T", e["r"], b(e["s"]), b(e["e"])))
        elif k == "I":
            out.append(("I",))
            break
        elif k == "C":
            out.append(("C", e["r"]))
        elif k == "N":
            out.append(("N",))
        elif k in "PH":
            out.append((k,))
            break
    return out


def proj_c05(evs):
    return proj_tokens(evs, stop_at_invalid=True, with_errors_loc=True)


def proj_c06(evs):
    """Every location triple and match text, up to the first InvalidToken (inclusive)."""
    out = []
    for e in evs:
        k = e["k"]
        if k == "A":
            out.append(("A", e["r"], loc3(e["ms"]), loc3(e["me"]), tuple(e.get("tx", ()))))
        elif k == "T":
            out.append(("T", e["r"], loc3(e["s"]), loc3(e["e"])))
        elif k == "I":
            out.append(("I", loc3(e["at"])))
            break
        elif k == "C":
            out.append(("C", e["r"], loc3(e["at"])))
        elif k == "N":
            out.append(("N",))
        elif k in "PH":
            out.append((k,))
            break
    return out


def proj_c07(evs):
    """Items: tokens by rule and byte span, errors in full (kind, payload, location)."""
    out = []
    for e in evs:
        k = e["k"]
        if k == "T":
            out.append(("T", e["r"], b(e["s"]), b(e["e"])))
        elif k == "I":
            out.append(("I", loc3(e["at"])))
            break
        elif k == "C":
            out.append(("C", e["r"], e["q"], loc3(e["at"])))
        elif k == "N":
            out.append(("N",))
        elif k in "PH":
            out.append((k,))
            break
    return out


def proj_c08(evs):
    """Everything that follows errors: the whole trace, InvalidToken reduced to its kind."""
    out = []
    for e in evs:
        k = e["k"]
        if k == "A":
            out.append(("A", e["r"], e["n"], b(e["ms"]), b(e["me"])))
        elif k == "T":
            out.append(("T", e["r"], b(e["s"]), b(e["e"])))
        elif k == "I":
            out.append(("I",))
        elif k == "C":
            out.append(("C", e["r"]))
        elif k == "N":
            out.append(("N",))
        elif k == "S":
            out.append(("S", e["n"]))
        elif k in "PH":
            out.append((k,))
            break
    return out


def proj_c10(evs):
    """The action protocol: every invocation in full, every token / custom error in full."""
    out = []
    for e in evs:
        k = e["k"]
        if k == "A":
            out.append(("A", e["r"], e["n"], loc3(e["ms"]), loc3(e["me"]), tuple(e.get("tx", ())),
                        e["pk"], e["ch"]))
        elif k == "T":
            out.append(("T", e["r"], e["q"], loc3(e["s"]), loc3(e["e"])))
        elif k == "I":
            out.append(("I",))
            break
        elif k == "C":
            out.append(("C", e["r"], e["q"]))
        elif k == "N":
            out.append(("N",))
        elif k == "S":
            out.append(("S", e["n"]))
        elif k in "PH":
            out.append((k,))
            break
    return out


def generic_replay_check(pid, tier, progs, proj, what, rule, ctors=(0,), clone_points=False,
                         workers=None, **kw):
    out = Outcome(pid)
    byid = {p.id: p for p in progs}
    fr = replay_family(pid, progs, ctors=ctors, clone_points=clone_points,
                       workers=workers or (8 if tier == "quick" else 14),
                       tlc_timeout=700 if tier == "quick" else 3300, **kw)
    other = replay_violations(out, fr, proj, byid, what)
    for f in fr.build_failures:
        out.notes.append("program %d dropped: %s (%s) -- judged by C12" % (
            f["program"], f["kind"], f["message"][:100]))
    out.coverage = base_coverage(fr, rule)
    out.coverage["mismatches_outside_projection"] = other
    out.coverage["dropped_programs"] = len(fr.build_failures)
    out.fr = fr
    out.byid = byid
    return out


INPUTS_RULE = ("inputs: every string of length <= k over the program's alphabet (letters used by "
               "the rules plus one foreign letter); TLC enumerates every behaviour of RefLexer.tla "
               "(every decision history the rules' menus allow), each expected trace is replayed "
               "into the real generated lexer; ")


def check_C01(tier, seed):
    n, k = sizes(tier, (70, 4), (900, 5))
    progs = (F.fixed_mm(1) + F.random_mm(seed, n, 100, k=k)
             + F.random_general(seed + 1, n // 3, 5000, k=k, nsets=(1,), nrules=(2, 3, 4, 5), p_sugar=0.3,
                                menu_sizes=(1,), p_fal=0.0, named=False, depth=3))
    for p in progs:
        if p.id >= 5000:
            for r in p.rules():
                if r["kind"] == "inf":
                    r["menu"] = [F.D(False, -1, 1)]
    return generic_replay_check(
        "C01", tier, progs, proj_tokens,
        "token sequence differs from the maximal-munch reference",
        "programs: 10 fixed maximal-munch shapes (the property's own examples, issue 16, cycles and "
        "joins) + seeded random 2-6 rule single-rule-set definitions with and without `rule` "
        "blocks; " + INPUTS_RULE + "compared: (rule, lexeme byte span) of every action and token")


def check_C03(tier, seed):
    n, k = sizes(tier, (60, 3), (700, 4))
    progs = F.random_general(seed, n, 100, k=k, nsets=(2, 2, 3, 3, 4), nrules=(0, 1, 2, 2, 3),
                             menu_sizes=(1, 2, 2, 3), p_fal=0.2)
    return generic_replay_check(
        "C03", tier, progs, proj_tokens,
        "a rule of a rule set that is not active ran (or the wrong rule set was entered)",
        "programs: seeded random definitions with 2-4 rule sets (empty ones included), every rule "
        "with a menu of 1-3 decisions among continue/return x reset x switch-to-any-rule-set; "
        + INPUTS_RULE + "compared: (rule, lexeme span) of every action and token up to the first "
        "InvalidToken")


def check_C04(tier, seed):
    n, k = sizes(tier, (60, 4), (700, 5))
    progs = F.random_general(seed, n, 100, k=k, nsets=(1, 1, 2), nrules=(2, 3, 3, 4), p_ctx=0.55,
                             p_eoi=0.15, menu_sizes=(1,), p_fal=0.0, p_sugar=0.2, allow_switch=False)
    for p in progs:
        for r in p.rules():
            if r["kind"] == "inf":
                r["menu"] = [F.D(False, -1, 1)]
    return generic_replay_check(
        "C04", tier, progs, proj_c04,
        "a rule with a right context matched/was skipped wrongly, or the context was consumed",
        "programs: seeded random definitions in which about half of the rules carry a right context "
        "(literals, sets, repetition, `$`, nullable contexts) in any priority position; "
        + INPUTS_RULE + "compared: (rule, lexeme span, next character seen by the action) of every "
        "action and token up to the first InvalidToken")


def check_C05(tier, seed):
    n, k = sizes(tier, (60, 4), (700, 5))
    progs = (F.random_general(seed, n // 2, 100, k=k, nsets=(1, 2, 2, 3), nrules=(1, 2, 2, 3), p_eoi=0.4,
                              menu_sizes=(1, 2), p_fal=0.2, letters=(F.A, F.B), sigma=(F.A, F.B, 120))
             + F.random_general(seed + 1, n // 2, 3000, k=k, nsets=(1,), nrules=(1, 2, 3), p_eoi=0.5,
                                menu_sizes=(1, 2), p_fal=0.0, named=False, letters=(F.A, F.B),
                                sigma=(F.A, F.B, 120)))
    return generic_replay_check(
        "C05", tier, progs, proj_c05,
        "end-of-input protocol violated ($ rule, None/InvalidToken at the end, fused stream)",
        "programs: seeded random definitions over {a,b} with `$`-tailed rules in Init and in other "
        "rule sets (40-50% of rules), with and without `rule` blocks; " + INPUTS_RULE +
        "the input therefore ends at every point (inside a lexeme, after a match, after a rewind, "
        "in any rule set); compared: every action and item with byte positions up to the first "
        "InvalidToken, and four further next() calls after the first None")


LOC_SIGMA = (97, 10, 9, 233, 769, 28450, 128512)


def check_C06(tier, seed):
    n, k = sizes(tier, (40, 3), (300, 4))
    progs = F.random_general(seed, n, 100, k=k, nsets=(1,), nrules=(2, 3, 4), p_eoi=0.1,
                             menu_sizes=(1, 2), p_fal=0.1, letters=LOC_SIGMA[:6] if False else (97, 10, 9, 233, 769, 28450, 128512),
                             sigma=LOC_SIGMA, depth=2)
    return generic_replay_check(
        "C06", tier, progs, proj_c06,
        "a location (line, column, byte index) or match text differs from the fold over the input",
        "programs: seeded random definitions over the location alphabet {a, newline, tab, e-acute "
        "(2 bytes), combining acute (2 bytes, width 0), CJK (3 bytes, width 2), emoji (4 bytes, "
        "width 2)} whose rules overlap so that lexers rewind; " + INPUTS_RULE +
        "compared: all Loc triples of match_loc(), tokens and errors, and match_() text")


def check_C07(tier, seed):
    n, k = sizes(tier, (60, 3), (700, 4))
    progs = F.random_general(seed, n, 100, k=k, nsets=(1, 1, 2), nrules=(2, 3, 4), p_ctx=0.15,
                             menu_sizes=(1, 2, 3), p_fal=0.6, p_sugar=0.15)
    return generic_replay_check(
        "C07", tier, progs, proj_c07,
        "an error item differs (kind, payload or location), or an error was raised although a rule matches",
        "programs: seeded random definitions with 60% fallible (`=?`) rules whose menus include "
        "Err decisions with and without reset_match()/continue_ accumulation; " + INPUTS_RULE +
        "compared: every item; errors in full (kind, payload, line/col/byte)")


def check_C08(tier, seed):
    n, k = sizes(tier, (60, 4), (700, 5))
    progs = F.random_general(seed, n, 100, k=k, nsets=(2, 2, 3), nrules=(1, 2, 2, 3),
                             menu_sizes=(1, 2), p_fal=0.1, letters=(F.A, F.B), sigma=(F.A, F.B, 120))
    return generic_replay_check(
        "C08", tier, progs, proj_c08,
        "after an InvalidToken the lexer did not resume right after the examined text, in Init, and stay there",
        "programs: seeded random multi-rule-set definitions over {a,b} (inputs also contain the "
        "unlexable letter x) with switch/continue/return menus; " + INPUTS_RULE +
        "compared: the whole trace after every InvalidToken (actions with user-state counter, "
        "tokens, further errors, final user state)")


def check_C10(tier, seed):
    n, k = sizes(tier, (60, 3), (700, 4))
    progs = (F.random_general(seed, n, 100, k=k, nsets=(1, 2, 2), nrules=(2, 3, 4),
                              menu_sizes=(2, 3, 3), p_fal=0.4, p_sugar=0.3))
    return generic_replay_check(
        "C10", tier, progs, proj_c10,
        "the semantic-action protocol was violated (invocation, match text/loc, peek, token span, sugar)",
        "programs: seeded random definitions mixing `re,` / `re = t` / `=>` / `=?` rules, every "
        "non-sugar rule with a menu of 2-3 decisions (continue/return/Err x reset_match x switch); "
        + INPUTS_RULE + "compared: every action invocation in full (rule, user-state counter, "
        "match_loc, match_ text, peek, decision) and every token / custom error in full")


def setup():
    """Warm the cargo target directory (dependencies, lexgen with hooks) and check the tools."""
    import subprocess
    from pipeline import build_family
    progs = F.fixed_mm(1)[:1]
    ws, batches, failures = build_family("setup", progs)
    if failures:
        raise ToolError("setup: the smoke-test lexer failed to build: %s" % failures)
    cp = subprocess.run(["java", "-version"], capture_output=True, text=True)
    if cp.returncode != 0:
        raise ToolError("java not available")


CHECKS = {
    "C01": check_C01,
    "C03": check_C03,
    "C04": check_C04,
    "C05": check_C05,
    "C06": check_C06,
    "C07": check_C07,
    "C08": check_C08,
    "C10": check_C10,
}

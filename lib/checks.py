"""Per-property checks. Each returns an Outcome; `check` turns it into exit code, VIOLATION /
KNOWN-FINDING lines and the evidence file."""

import json
import os
import time

import families as F
from common import (BUILD, ToolError, load_known_findings, log, write_evidence, write_replay)
from pipeline import replay_family
from progs import Program


SEED = 1   # set by ./check from --seed / VERIF_SEED


class Outcome:
    def __init__(self, pid, level="model_checking"):
        self.pid = pid
        self.level = level
        self.violations = []     # dicts: key, desc, payload
        self.coverage = {}
        self.assumptions = []
        self.notes = []


# ---------------------------------------------------------------------------------------------
# Observation projections (DESIGN 2.2): a check judges only its own property.
# ---------------------------------------------------------------------------------------------

def b(loc):
    return loc[2]


def proj_tokens(evs, stop_at_invalid=True, with_errors_loc=False):
    """(rule, lexeme byte span) of every action invocation and token; error kinds."""
    out = []
    for e in evs:
        k = e["k"]
        if k == "A":
            out.append(("A", e["r"], b(e["ms"]), b(e["me"])))
        elif k == "T":
            out.append(("T", e["r"], b(e["s"]), b(e["e"])))
        elif k == "I":
            out.append(("I", b(e["at"])) if with_errors_loc else ("I",))
            if stop_at_invalid:
                break
        elif k == "C":
            out.append(("C", e["r"], b(e["at"])) if with_errors_loc else ("C", e["r"]))
        elif k == "N":
            out.append(("N",))
        elif k in "PH":
            out.append((k,))
            break
    return out


def first_divergence(exp, act):
    n = min(len(exp), len(act))
    for i in range(n):
        if exp[i] != act[i]:
            return i
    return n if len(exp) != len(act) else -1


def strip_lx(evs):
    out = []
    for e in evs:
        e = dict(e)
        e.pop("lx", None)
        out.append(e)
    return out


def project_pair(proj, exp, act, prog):
    """proj is either a function of one event list, or (marked with .pair) a function of
    (expected, actual, program) returning both projections."""
    if getattr(proj, "pair", False):
        return proj(exp, act, prog)
    return proj(exp), proj(act)


def replay_violations(out, fr, proj, byid, what, max_report=5):
    """Turn mismatches whose projection differs into violations; count the others."""
    other = 0
    seen_progs = set()
    for m in fr.mismatches:
        req = m["req"]
        exp = req["ev"]
        act = strip_lx(m["actual"])
        pe, pa = project_pair(proj, exp, act, byid[req["p"]])
        if pe == pa:
            other += 1
            continue
        prog = byid[req["p"]]
        key = "prog=%s input=%s script=%s ctor=%d" % (
            prog.body().replace("\n", " ").replace("  ", " "), req["inp"], req["script"], req["ctor"])
        if len(out.violations) < 200:
            out.violations.append({
                "key": key,
                "desc": "%s: program %d input %s: expected %s, real lexer gave %s" % (
                    what, req["p"], req["inp"], pe[:8], pa[:8]),
                "payload": {
                    "kind": "replay", "program": prog.to_json(), "src": prog.body(),
                    "input": req["inp"], "script": req["script"], "ctor": req["ctor"],
                    "clone_at": req["clone_at"], "sched": req["sched"],
                    "expected": exp, "actual": act,
                    "first_divergence": first_divergence(pe, pa),
                },
            })
    return other


def base_coverage(fr, rule):
    tlc = fr.tlc
    return {
        "states": tlc.distinct,
        "transitions": tlc.states,
        "traces_validated_against_impl": fr.ok_runs,
        "programs": fr.programs,
        "behaviours_enumerated": fr.behaviours,
        "runs_replayed": fr.runs,
        "mismatching_runs": len(fr.mismatches),
        "build_failures": fr.build_failures[:10],
        "rule": rule,
        "samples": fr.samples,
        "tlc_cmd": tlc.cmd,
        "tlc_wall_s": round(tlc.wall, 1),
        "build_wall_s": round(fr.build_wall, 1),
        "run_wall_s": round(fr.run_wall, 2),
        "exhaustive": True,
    }


def sizes(tier, quick, thorough):
    return thorough if tier == "thorough" else quick


def loc3(l):
    return tuple(l)


def proj_c04(evs):
    out = []
    for e in evs:
        k = e["k"]
        if k == "A":
            out.append(("A", e["r"], b(e["ms"]), b(e["me"]), e["pk"]))
        elif k == "T":
            out.append(("T", e["r"], b(e["s"]), b(e["e"])))
        elif k == "I":
            out.append(("I",))
            break
        elif k == "C":
            out.append(("C", e["r"]))
        elif k == "N":
            out.append(("N",))
        elif k in "PH":
            out.append((k,))
            break
    return out


def cut_after_nth_invalid(evs, m):
    """events up to and including the m-th InvalidToken (m >= 1); everything if there are fewer"""
    seen = 0
    for i, e in enumerate(evs):
        if e["k"] == "I":
            seen += 1
            if seen == m:
                return evs[:i + 1]
    return evs


def first_mid_input_invalid(exp):
    """1-based count of the first InvalidToken of the expected trace that is followed by anything
    but None items (an error in the middle of the input), or 0"""
    seen = 0
    for i, e in enumerate(exp):
        if e["k"] == "I":
            seen += 1
            if any(x["k"] in "ATIC" for x in exp[i + 1:]):
                return seen
    return 0


def proj_c05(exp, act, prog):
    """Everything with byte positions; compared up to the first InvalidToken raised in the middle
    of the input (what follows such an error is C08's business), but including everything that
    follows an error raised at the end of the input."""
    m = first_mid_input_invalid(exp)
    if m:
        exp, act = cut_after_nth_invalid(exp, m), cut_after_nth_invalid(act, m)
    f = lambda evs: proj_tokens(evs, stop_at_invalid=False, with_errors_loc=True)
    return f(exp), f(act)


proj_c05.pair = True


def intrinsic_rule_sets(evs, prog):
    """C03 on a recorded trace alone: track the active rule set from the trace's own history
    (Init at the start and after every InvalidToken; the rule set named by the decision an action
    took) and report the first action or token whose rule is not a rule of the active set."""
    set_of = {}
    menus = {}
    ridx = 0
    for si, (_, rs) in enumerate(prog.sets):
        for r in rs:
            set_of[ridx] = si
            menus[ridx] = r
            ridx += 1
    active = 0
    pending_switch = None
    for i, e in enumerate(evs):
        k = e["k"]
        if k == "A":
            if set_of.get(e["r"]) != active:
                return ("rule %d of set %d ran while set %d was active (event %d)" % (
                    e["r"], set_of.get(e["r"], -1), active, i))
            d = menus[e["r"]]["menu"][e["ch"] % len(menus[e["r"]]["menu"])]
            if d["sw"] >= 0:
                active = d["sw"]
        elif k == "T" and e["q"] == -1:
            if set_of.get(e["r"]) != active:
                return ("rule %d of set %d ran while set %d was active (event %d)" % (
                    e["r"], set_of.get(e["r"], -1), active, i))
        elif k == "I":
            active = 0
        elif k in "PH":
            break
    return "ok"


def proj_c03(exp, act, prog):
    pe = proj_tokens(exp) + [("active-rule-set", intrinsic_rule_sets(exp, prog))]
    pa = proj_tokens(act) + [("active-rule-set", intrinsic_rule_sets(act, prog))]
    return pe, pa


proj_c03.pair = True


def proj_c06(evs):
    """Every location triple and match text, up to the first InvalidToken (inclusive)."""
    out = []
    for e in evs:
        k = e["k"]
        if k == "A":
            out.append(("A", e["r"], loc3(e["ms"]), loc3(e["me"]), tuple(e.get("tx", ()))))
        elif k == "T":
            out.append(("T", e["r"], loc3(e["s"]), loc3(e["e"])))
        elif k == "I":
            out.append(("I", loc3(e["at"])))
            break
        elif k == "C":
            out.append(("C", e["r"], loc3(e["at"])))
        elif k == "N":
            out.append(("N",))
        elif k in "PH":
            out.append((k,))
            break
    return out


def proj_c07(evs):
    """Items: tokens by rule and byte span, errors in full (kind, payload, location)."""
    out = []
    for e in evs:
        k = e["k"]
        if k == "T":
            out.append(("T", e["r"], b(e["s"]), b(e["e"])))
        elif k == "I":
            out.append(("I", loc3(e["at"])))
            break
        elif k == "C":
            out.append(("C", e["r"], e["q"], loc3(e["at"])))
        elif k == "N":
            out.append(("N",))
        elif k in "PH":
            out.append((k,))
            break
    return out


def proj_c08(evs):
    """Everything that follows errors: the whole trace, InvalidToken reduced to its kind."""
    out = []
    for e in evs:
        k = e["k"]
        if k == "A":
            out.append(("A", e["r"], e["n"], b(e["ms"]), b(e["me"])))
        elif k == "T":
            out.append(("T", e["r"], b(e["s"]), b(e["e"])))
        elif k == "I":
            out.append(("I",))
        elif k == "C":
            out.append(("C", e["r"]))
        elif k == "N":
            out.append(("N",))
        elif k == "S":
            out.append(("S", e["n"]))
        elif k in "PH":
            out.append((k,))
            break
    return out


def proj_c10(evs):
    """The action protocol: every invocation in full, every token / custom error in full."""
    out = []
    for e in evs:
        k = e["k"]
        if k == "A":
            out.append(("A", e["r"], e["n"], loc3(e["ms"]), loc3(e["me"]), tuple(e.get("tx", ())),
                        e["pk"], e["ch"]))
        elif k == "T":
            out.append(("T", e["r"], e["q"], loc3(e["s"]), loc3(e["e"])))
        elif k == "I":
            out.append(("I",))
            break
        elif k == "C":
            out.append(("C", e["r"], e["q"]))
        elif k == "N":
            out.append(("N",))
        elif k == "S":
            out.append(("S", e["n"]))
        elif k in "PH":
            out.append((k,))
            break
    return out


def generic_replay_check(pid, tier, progs, proj, what, rule, ctors=(0,), clone_points=False,
                         workers=None, seed=None, rand_runs=None, rand_len=24, **kw):
    if seed is None:
        seed = SEED
    if rand_runs is None:
        rand_runs = 60 if tier == "quick" else 400
    out = Outcome(pid)
    byid = {p.id: p for p in progs}
    fr = replay_family(pid, progs, ctors=ctors, clone_points=clone_points,
                       workers=workers or (8 if tier == "quick" else 14),
                       tlc_timeout=700 if tier == "quick" else 3300, **kw)
    other = replay_violations(out, fr, proj, byid, what)
    for f in fr.build_failures:
        out.notes.append("program %d dropped: %s (%s) -- judged by C12" % (
            f["program"], f["kind"], f["message"][:100]))
    out.coverage = base_coverage(fr, rule + "; then the real lexers are run freely on seeded random "
                                 "inputs of up to %d characters with random decision scripts and every "
                                 "recorded run is validated by TLC against Trace_RefLexer.tla "
                                 "(deliberately corrupted recordings must be rejected)" % rand_len)
    out.coverage["mismatches_outside_projection"] = other
    out.coverage["dropped_programs"] = len(fr.build_failures)
    out.fr = fr
    out.byid = byid
    if fr.ws is not None and rand_runs:
        trace_part(out, pid, tier, progs, fr.ws, fr.batches, seed, rand_runs, rand_len, proj, what,
                   ctors=ctors)
    return out


INPUTS_RULE = ("inputs: every string of length <= k over the program's alphabet (letters used by "
               "the rules plus one foreign letter); TLC enumerates every behaviour of RefLexer.tla "
               "(every decision history the rules' menus allow), each expected trace is replayed "
               "into the real generated lexer; ")


def check_C01(tier, seed):
    n, k = sizes(tier, (70, 4), (900, 5))
    progs = (F.fixed_mm(1) + F.random_mm(seed, n, 100, k=k)
             + F.random_general(seed + 1, n // 3, 5000, k=k, nsets=(1,), nrules=(2, 3, 4, 5), p_sugar=0.3,
                                menu_sizes=(1,), p_fal=0.0, named=False, depth=3))
    import random
    rnd = random.Random(seed)
    for p in progs:
        if p.id >= 5000:
            # actions that return, continue (accumulating) or skip: fixed per rule
            for r in p.rules():
                if r["kind"] == "inf":
                    r["menu"] = [rnd.choice([F.D(False, -1, 1), F.D(False, -1, 1), F.D(False, -1, 0),
                                             F.D(True, -1, 0)])]
    return generic_replay_check(
        "C01", tier, progs, proj_tokens,
        "token sequence differs from the maximal-munch reference",
        "programs: 10 fixed maximal-munch shapes (the property's own examples, issue 16, cycles and "
        "joins) + seeded random 2-6 rule single-rule-set definitions with and without `rule` "
        "blocks; " + INPUTS_RULE + "compared: (rule, lexeme byte span) of every action and token")


def check_C03(tier, seed):
    n, k = sizes(tier, (60, 3), (700, 4))
    progs = F.random_general(seed, n, 100, k=k, nsets=(2, 2, 3, 3, 4), nrules=(0, 1, 2, 2, 3),
                             menu_sizes=(1, 2, 2, 3), p_fal=0.2)
    return generic_replay_check(
        "C03", tier, progs, proj_c03,
        "a rule of a rule set that is not active ran (or the wrong rule set was entered)",
        "programs: seeded random definitions with 2-4 rule sets (empty ones included), every rule "
        "with a menu of 1-3 decisions among continue/return x reset x switch-to-any-rule-set; "
        + INPUTS_RULE + "compared: (rule, lexeme span) of every action and token up to the first "
        "InvalidToken, and over the whole trace that every rule that ran belongs to the rule set "
        "that the trace's own switch decisions / failures made active")


def check_C04(tier, seed):
    n, k = sizes(tier, (60, 4), (700, 5))
    progs = F.random_general(seed, n, 100, k=k, nsets=(1, 1, 2), nrules=(2, 3, 3, 4), p_ctx=0.55,
                             p_eoi=0.15, menu_sizes=(1,), p_fal=0.0, p_sugar=0.2, allow_switch=False)
    for p in progs:
        for r in p.rules():
            if r["kind"] == "inf":
                r["menu"] = [F.D(False, -1, 1)]
    return generic_replay_check(
        "C04", tier, progs, proj_c04,
        "a rule with a right context matched/was skipped wrongly, or the context was consumed",
        "programs: seeded random definitions in which about half of the rules carry a right context "
        "(literals, sets, repetition, `$`, nullable contexts) in any priority position; "
        + INPUTS_RULE + "compared: (rule, lexeme span, next character seen by the action) of every "
        "action and token up to the first InvalidToken")


def check_C05(tier, seed):
    n, k = sizes(tier, (60, 4), (700, 5))
    progs = (F.random_general(seed, n // 2, 100, k=k, nsets=(1, 2, 2, 3), nrules=(1, 2, 2, 3), p_eoi=0.4,
                              menu_sizes=(1, 2), p_fal=0.2, letters=(F.A, F.B), sigma=(F.A, F.B, 120))
             + F.random_general(seed + 1, n // 2, 3000, k=k, nsets=(1,), nrules=(1, 2, 3), p_eoi=0.5,
                                menu_sizes=(1, 2), p_fal=0.0, named=False, letters=(F.A, F.B),
                                sigma=(F.A, F.B, 120)))
    return generic_replay_check(
        "C05", tier, progs, proj_c05,
        "end-of-input protocol violated ($ rule, None/InvalidToken at the end, fused stream)",
        "programs: seeded random definitions over {a,b} with `$`-tailed rules in Init and in other "
        "rule sets (40-50% of rules), with and without `rule` blocks; " + INPUTS_RULE +
        "the input therefore ends at every point (inside a lexeme, after a match, after a rewind, "
        "in any rule set); compared: every action and item with byte positions up to the first "
        "InvalidToken, and four further next() calls after the first None")


LOC_SIGMA = (97, 10, 9, 233, 769, 28450, 128512)


def check_C06(tier, seed):
    n, k = sizes(tier, (40, 3), (300, 4))
    progs = F.random_general(seed, n, 100, k=k, nsets=(1,), nrules=(2, 3, 4), p_eoi=0.1,
                             menu_sizes=(1, 2), p_fal=0.1, letters=LOC_SIGMA[:6] if False else (97, 10, 9, 233, 769, 28450, 128512),
                             sigma=LOC_SIGMA, depth=2)
    return generic_replay_check(
        "C06", tier, progs, proj_c06,
        "a location (line, column, byte index) or match text differs from the fold over the input",
        "programs: seeded random definitions over the location alphabet {a, newline, tab, e-acute "
        "(2 bytes), combining acute (2 bytes, width 0), CJK (3 bytes, width 2), emoji (4 bytes, "
        "width 2)} whose rules overlap so that lexers rewind; " + INPUTS_RULE +
        "compared: all Loc triples of match_loc(), tokens and errors, and match_() text")


def check_C07(tier, seed):
    n, k = sizes(tier, (60, 3), (700, 4))
    progs = F.random_general(seed, n, 100, k=k, nsets=(1, 1, 2), nrules=(2, 3, 4), p_ctx=0.15,
                             menu_sizes=(1, 2, 3), p_fal=0.6, p_sugar=0.15)
    return generic_replay_check(
        "C07", tier, progs, proj_c07,
        "an error item differs (kind, payload or location), or an error was raised although a rule matches",
        "programs: seeded random definitions with 60% fallible (`=?`) rules whose menus include "
        "Err decisions with and without reset_match()/continue_ accumulation; " + INPUTS_RULE +
        "compared: every item; errors in full (kind, payload, line/col/byte)")


def check_C08(tier, seed):
    n, k = sizes(tier, (60, 4), (700, 5))
    progs = F.random_general(seed, n, 100, k=k, nsets=(2, 2, 3), nrules=(1, 2, 2, 3),
                             menu_sizes=(1, 2), p_fal=0.1, letters=(F.A, F.B), sigma=(F.A, F.B, 120))
    return generic_replay_check(
        "C08", tier, progs, proj_c08,
        "after an InvalidToken the lexer did not resume right after the examined text, in Init, and stay there",
        "programs: seeded random multi-rule-set definitions over {a,b} (inputs also contain the "
        "unlexable letter x) with switch/continue/return menus; " + INPUTS_RULE +
        "compared: the whole trace after every InvalidToken (actions with user-state counter, "
        "tokens, further errors, final user state)")


def check_C10(tier, seed):
    n, k = sizes(tier, (60, 3), (700, 4))
    progs = (F.random_general(seed, n, 100, k=k, nsets=(1, 2, 2), nrules=(2, 3, 4),
                              menu_sizes=(2, 3, 3), p_fal=0.4, p_sugar=0.3))
    return generic_replay_check(
        "C10", tier, progs, proj_c10,
        "the semantic-action protocol was violated (invocation, match text/loc, peek, token span, sugar)",
        "programs: seeded random definitions mixing `re,` / `re = t` / `=>` / `=?` rules, every "
        "non-sugar rule with a menu of 2-3 decisions (continue/return/Err x reset_match x switch); "
        + INPUTS_RULE + "compared: every action invocation in full (rule, user-state counter, "
        "match_loc, match_ text, peek, decision) and every token / custom error in full")


# ---------------------------------------------------------------------------------------------
# Implementation -> specification on random long inputs (trace validation by TLC)
# ---------------------------------------------------------------------------------------------

def scripted_expected(tag, prog, inp, script):
    """Expected behaviour of RefLexer for one input and the decisions the real run was offered."""
    import copy
    from pipeline import tlc_expected
    q = copy.copy(prog)
    q.inputs = [list(inp)]
    res = tlc_expected(tag + "_exp", [q], workers=2, timeout=300)
    if not res.ok:
        raise ToolError("TLC failed computing the expected behaviour: %s" % res.error)
    rules = prog.rules()
    for rp in res.tagged.get("REPLAY", []):
        ok = True
        j = 0
        for e in rp["ev"]:
            if e["k"] == "A":
                want = (script[j] if j < len(script) else 0) % len(rules[e["r"]]["menu"])
                if e["ch"] != want:
                    ok = False
                    break
                j += 1
        if ok:
            return rp["ev"]
    raise ToolError("no specification behaviour follows the offered script")


def random_inputs(rnd, prog, n_runs, maxlen, extra=()):
    reqs = []
    sig = prog.sigma
    for t in range(n_runs):
        r = rnd.random()
        if r < 0.05:
            inp = []
        elif r < 0.15:
            inp = [rnd.choice(sig)] * rnd.randrange(1, maxlen)
        else:
            n = rnd.randrange(1, maxlen)
            # biased towards the program's own letters, with a few foreign characters
            inp = [rnd.choice(sig) for _ in range(n)]
        script = [rnd.randrange(6) for _ in range(len(inp) + 2)]
        reqs.append({"p": prog.id, "inp": inp, "script": script, "ctor": 0, "clone_at": -1,
                     "sched": []})
    for inp in extra:
        reqs.append({"p": prog.id, "inp": list(inp), "script": [], "ctor": 0, "clone_at": -1,
                     "sched": [], "notx": True})
    return reqs


def corrupt(run, rnd):
    """A deliberately wrong copy of a recorded run (must be rejected: binding self-test)."""
    import copy
    r = copy.deepcopy(run)
    evs = r["ev"]
    cands = [i for i, e in enumerate(evs) if e["k"] in ("T", "A", "I", "C")]
    if not cands:
        evs.insert(0, {"k": "I", "at": [0, 0, 0]})
        return r
    i = rnd.choice(cands)
    e = evs[i]
    if e["k"] == "T":
        e["e"] = [e["e"][0], e["e"][1] + 1, e["e"][2] + 1]
    elif e["k"] == "A":
        e["r"] = e["r"] + 1
    else:
        e["at"] = [e["at"][0], e["at"][1] + 1, e["at"][2] + 1]
    return r


def trace_part(out, pid, tier, progs, ws, batches, seed, n_runs, maxlen, proj, what,
               ctors=(0,), extra_inputs=(), max_validate_len=80):
    """Run the real lexers freely on random inputs, validate every recorded run with TLC against
    Trace_RefLexer; for rejected runs compute the expected behaviour and judge by projection."""
    import random
    from pipeline import run_requests, validate_traces
    rnd = random.Random(seed * 7919 + 13)
    byid = {p.id: p for p in progs}
    live = {p.id for b_ in batches for p in b_}
    reqs = []
    for p in progs:
        if p.id not in live:
            continue
        rs = random_inputs(rnd, p, n_runs, maxlen, extra_inputs)
        for r in rs:
            r["ctor"] = rnd.choice(list(ctors))
        reqs.extend(rs)
    results = run_requests(ws, batches, reqs, pid)
    runs = []
    for i, (rq, rs) in enumerate(zip(reqs, results)):
        if rs is None:
            continue
        runs.append({"i": i, "p": rq["p"], "inp": rq["inp"], "ev": rs["ev"]})
    tovalidate = [r for r in runs if len(r["inp"]) <= max_validate_len]
    canaries = []
    for r in rnd.sample(tovalidate, min(20, len(tovalidate))):
        c = corrupt(r, rnd)
        c["i"] = -1 - len(canaries)
        canaries.append(c)
    tlc, accepted = validate_traces(pid, progs, tovalidate + canaries,
                                    workers=8 if tier == "quick" else 14)
    bad_canaries = [c for c in canaries if c["i"] in accepted]
    if bad_canaries:
        raise ToolError("trace validation accepted a deliberately corrupted recording: %s"
                        % json.dumps(bad_canaries[0])[:500])
    rejected = [r for r in tovalidate if r["i"] not in accepted]
    other = 0
    for r in rejected[:40]:
        rq = reqs[r["i"]]
        prog = byid[r["p"]]
        exp = scripted_expected(pid, prog, r["inp"], rq["script"])
        act = strip_lx(r["ev"])
        if rq["ctor"] >= 2:
            exp = [{k: v for k, v in e.items() if k != "tx"} for e in exp]
        pe, pa = project_pair(proj, exp, act, prog)
        if pe == pa:
            other += 1
            continue
        out.violations.append({
            "key": "prog=%s input=%s script=%s ctor=%d" % (
                prog.body().replace("\n", " ").replace("  ", " "), r["inp"], rq["script"], rq["ctor"]),
            "desc": "%s (recorded run rejected by Trace_RefLexer): program %d input %s: expected %s, real lexer gave %s" % (
                what, r["p"], r["inp"][:30], pe[:8], pa[:8]),
            "payload": {"kind": "replay", "program": prog.to_json(), "src": prog.body(),
                        "input": r["inp"], "script": rq["script"], "ctor": rq["ctor"],
                        "clone_at": -1, "sched": [], "expected": exp, "actual": act,
                        "first_divergence": first_divergence(pe, pa)},
        })
    cov = out.coverage
    cov["random_runs_recorded"] = len(runs)
    cov["random_runs_validated_by_tlc"] = len(tovalidate)
    cov["random_runs_accepted"] = len(tovalidate) - len(rejected)
    cov["random_runs_rejected"] = len(rejected)
    cov["random_rejected_outside_projection"] = other
    cov["corrupted_recordings_rejected"] = len(canaries)
    cov["trace_states"] = tlc.distinct
    cov["trace_tlc_wall_s"] = round(tlc.wall, 1)
    cov["traces_validated_against_impl"] = cov.get("traces_validated_against_impl", 0) + len(tovalidate) - len(rejected)
    cov["states"] = cov.get("states", 0) + tlc.distinct
    cov["transitions"] = cov.get("transitions", 0) + tlc.states
    if tovalidate:
        cov.setdefault("samples", []).append({"recorded_run": {k: tovalidate[0][k] for k in ("p", "inp", "ev")}})
    return runs, reqs


def c09_reason(evs, n_chars, free_running):
    items = 0
    acts = 0
    saw_none = False
    for e in evs:
        k = e["k"]
        if k == "P":
            return "panic: %s" % e.get("msg", "")[:200]
        if k == "H":
            return "a next() call did not return (watchdog)"
        if k == "A" and not saw_none:
            acts += 1
        if k in "TIC":
            if saw_none:
                return "an item was produced after None"
            items += 1
        if k == "N":
            saw_none = True
    if items > n_chars + 1:
        return "%d items before None for %d characters" % (items, n_chars)
    if acts > n_chars + 1:
        return "%d action invocations for %d characters" % (acts, n_chars)
    if free_running and not saw_none:
        return "no None within %d calls for %d characters" % (n_chars + 6, n_chars)
    return None


def check_C09(tier, seed):
    out = Outcome("C09")
    n, k = sizes(tier, (50, 3), (500, 4))
    progs = (F.random_general(seed, n, 100, k=k, nsets=(1, 2, 3), nrules=(0, 1, 2, 3, 4), p_ctx=0.2,
                              p_eoi=0.2, menu_sizes=(1, 2, 3), p_fal=0.3)
             + F.fixed_mm(5000))
    byid = {p.id: p for p in progs}
    fr = replay_family("C09", progs, workers=8 if tier == "quick" else 14,
                       tlc_timeout=700 if tier == "quick" else 3300)
    out.coverage = base_coverage(
        fr, "programs: seeded random definitions of every kind (several rule sets, empty rule sets, "
            "contexts, `$` rules, all decision menus) + the fixed maximal-munch shapes; part 1: every "
            "behaviour of RefLexer.tla for all inputs of length <= k replayed (TLC also checks the "
            "variant Progress and the bound Bounded on the specification); part 2: the real lexers "
            "run freely (until None plus three calls, budget n+6 calls, panics caught, watchdog) on "
            "random inputs up to 60 characters, the empty input, runs of one repeated character and "
            "long inputs; each recording <= 80 characters is validated by TLC against "
            "Trace_RefLexer.tla; non-trivial = distinct (program, input, script)")

    def judge(desc_prefix, prog, req, actual, free):
        why = c09_reason(actual, len(req["inp"]), free)
        if why is None:
            return False
        out.violations.append({
            "key": "prog=%s input=%s script=%s" % (prog.body().replace("\n", " ").replace("  ", " "),
                                                   req["inp"][:50], req["script"][:50]),
            "desc": "%s program %d input %s (len %d): %s" % (desc_prefix, prog.id, req["inp"][:20],
                                                            len(req["inp"]), why),
            "payload": {"kind": "replay", "program": prog.to_json(), "src": prog.body(),
                        "input": req["inp"], "script": req["script"], "ctor": req.get("ctor", 0),
                        "clone_at": -1, "sched": [], "actual": actual[:200], "why": why},
        })
        return True

    other = 0
    for m in fr.mismatches:
        if not judge("replay:", byid[m["req"]["p"]], m["req"], strip_lx(m["actual"]), False):
            other += 1
    out.coverage["mismatches_outside_projection"] = other
    if fr.ws is not None:
        live = [p for b_ in fr.batches for p in b_]
        longn = 20000 if tier == "quick" else 100000
        extra = []
        runs, reqs = trace_part(out, "C09", tier, progs, fr.ws, fr.batches, seed,
                                sizes(tier, 40, 300), 60, lambda evs: [c09_reason(evs, 10 ** 9, False)],
                                "termination/progress/panic-freedom",
                                extra_inputs=[[c] * longn for c in (97, 120)] + [[120, 97] * 500])
        n_long = 0
        for r in runs:
            rq = reqs[r["i"]]
            judge("free run:", byid[r["p"]], rq, strip_lx(r["ev"]), True)
            if len(r["inp"]) > 80:
                n_long += 1
        out.coverage["long_runs_checked_by_count_only"] = n_long
    for f in fr.build_failures:
        out.notes.append("program %d dropped: %s -- judged by C12" % (f["program"], f["kind"]))
    # de-duplicate violations found through both routes
    seen = set()
    uniq = []
    for v in out.violations:
        if v["key"] not in seen:
            seen.add(v["key"])
            uniq.append(v)
    out.violations = uniq
    return out


def check_C14(tier, seed):
    """The four constructors: every behaviour replayed through each; the four recorded streams
    must be the same stream (the reference stream serves as the common oracle)."""
    out = Outcome("C14")
    n, k = sizes(tier, (40, 3), (400, 4))
    progs = (F.random_general(seed, n, 100, k=k, nsets=(1, 2, 2), nrules=(1, 2, 3, 4), p_ctx=0.2,
                              p_eoi=0.2, menu_sizes=(1, 2), p_fal=0.2, sigma=(F.A, F.B, F.C, 233, 28450))
             + F.fixed_mm(5000)[:6])
    byid = {p.id: p for p in progs}
    fr = replay_family("C14", progs, ctors=(0, 1, 2, 3), workers=8 if tier == "quick" else 14,
                       tlc_timeout=700 if tier == "quick" else 3300)
    out.coverage = base_coverage(
        fr, "programs: seeded random definitions (rewinding rules, contexts, `$`, several rule "
            "sets, multi-byte characters in the alphabet); every behaviour of RefLexer.tla for all "
            "inputs <= k is replayed through new, new_with_state, new_from_iter and "
            "new_from_iter_with_state (iterator: a cloneable iterator over shared storage); the "
            "four recorded streams (without match_() text) must be identical; then random inputs "
            "up to 60 characters through a random constructor each, validated by TLC against "
            "Trace_RefLexer.tla")
    # group by behaviour
    actual = {}
    for m in fr.mismatches:
        rq = m["req"]
        actual[(rq["p"], tuple(rq["inp"]), tuple(rq["script"]), rq["ctor"])] = strip_lx(m["actual"])

    def notx(evs):
        return [{k_: v for k_, v in e.items() if k_ != "tx"} for e in evs]

    groups = {}
    for m in fr.mismatches:
        rq = m["req"]
        groups.setdefault((rq["p"], tuple(rq["inp"]), tuple(rq["script"])), rq)
    other = 0
    for key, rq in groups.items():
        streams = []
        for c in (0, 1, 2, 3):
            a = actual.get(key + (c,))
            streams.append(notx(a if a is not None else rq["ev"]))
        if all(s_ == streams[0] for s_ in streams):
            other += 1
            continue
        prog = byid[key[0]]
        dif = [c for c in (1, 2, 3) if streams[c] != streams[0]]
        out.violations.append({
            "key": "prog=%s input=%s script=%s" % (prog.body().replace("\n", " ").replace("  ", " "),
                                                   list(key[1]), list(key[2])),
            "desc": "constructors disagree: program %d input %s: constructor(s) %s give a different stream than `new`" % (
                key[0], list(key[1]), dif),
            "payload": {"kind": "replay", "program": prog.to_json(), "src": prog.body(),
                        "input": list(key[1]), "script": list(key[2]), "ctor": dif[0], "clone_at": -1,
                        "sched": [], "expected": rq["ev"], "streams": streams},
        })
    out.coverage["mismatches_outside_projection"] = other
    if fr.ws is not None:
        trace_part(out, "C14", tier, progs, fr.ws, fr.batches, seed, sizes(tier, 30, 200), 60,
                   lambda evs: [{k_: v for k_, v in e.items() if k_ not in ("tx",)} for e in evs],
                   "stream of an iterator-built lexer differs from the specification",
                   ctors=(0, 1, 2, 3))
    return out


def check_C15(tier, seed):
    """Clone at every point: original and clone must both continue with the reference stream."""
    out = Outcome("C15")
    n, k = sizes(tier, (30, 3), (300, 4))
    progs = F.random_general(seed, n, 100, k=k, nsets=(1, 2, 2), nrules=(1, 2, 3), p_ctx=0.2,
                             p_eoi=0.2, menu_sizes=(1, 2), p_fal=0.25)
    byid = {p.id: p for p in progs}
    fr = replay_family("C15", progs, ctors=(0, 2), clone_points=True,
                       workers=8 if tier == "quick" else 14,
                       tlc_timeout=700 if tier == "quick" else 3300)
    out.coverage = base_coverage(
        fr, "programs: seeded random definitions with #[derive(Clone)] and a cloneable user state; "
            "for every behaviour of RefLexer.tla (all inputs <= k, all decision histories) and "
            "every clone point (before the first call, after every call including errors, "
            "switches and the final None) the real lexer is cloned and original and clone are "
            "advanced under three interleavings; both recorded suffix streams and both final user "
            "states must equal the specification's (which is deterministic: one successor per "
            "decision); also with iterator input")
    # baseline: the same behaviour without cloning
    base_bad = set()
    for m in fr.mismatches:
        rq = m["req"]
        if rq["clone_at"] < 0:
            base_bad.add((rq["p"], tuple(rq["inp"]), tuple(rq["script"]), rq["ctor"]))
    other = 0
    for m in fr.mismatches:
        rq = m["req"]
        if rq["clone_at"] < 0:
            other += 1
            continue
        if (rq["p"], tuple(rq["inp"]), tuple(rq["script"]), rq["ctor"]) in base_bad:
            other += 1     # the un-cloned run already differs: some other property's business
            continue
        prog = byid[rq["p"]]
        out.violations.append({
            "key": "prog=%s input=%s script=%s clone_at=%d sched=%s" % (
                prog.body().replace("\n", " ").replace("  ", " "), rq["inp"], rq["script"],
                rq["clone_at"], rq["sched"]),
            "desc": "program %d input %s: cloning after call %d (schedule %s) changed the stream of the original or of the clone" % (
                rq["p"], rq["inp"], rq["clone_at"], rq["sched"]),
            "payload": {"kind": "replay", "program": prog.to_json(), "src": prog.body(),
                        "input": rq["inp"], "script": rq["script"], "ctor": rq["ctor"],
                        "clone_at": rq["clone_at"], "sched": rq["sched"], "expected": rq["ev"],
                        "actual": m["actual"]},
        })
        if len(out.violations) > 100:
            break
    out.coverage["mismatches_outside_projection"] = other
    return out


# ---------------------------------------------------------------------------------------------
# C11: character-class algebra / range map
# ---------------------------------------------------------------------------------------------

def den_points(pieces, points):
    d = {}
    for c in points:
        vs = set()
        for r in pieces:
            if r["s"] <= c <= r["e"]:
                vs |= set(r["v"])
        d[c] = tuple(sorted(vs))
    return d


def well_formed(pieces):
    for r in pieces:
        if r["s"] > r["e"] or not r["v"]:
            return False
    for a, b_ in zip(pieces, pieces[1:]):
        if a["e"] >= b_["s"]:
            return False
    return True


def op_text(t):
    if t["k"] == "ins":
        return "insert(%d, %d, %s)" % (t["a"], t["b"], t["v"])
    name = {"insr": "insert_ranges", "rem": "remove_ranges"}[t["k"]]
    return "%s(%s)" % (name, [(r["s"], r["e"]) for r in t["m"]])


def class_family(seed, n, base_id):
    """One-class lexers over the digits: `<class expression> = tk(0), _ = tk(1)`."""
    import random
    from progs import Gen, set_, chr_, any_, alt, diff, var
    rnd = random.Random(seed)
    lo, hi = 48, 57

    def atom():
        r = rnd.random()
        if r < 0.5:
            items = []
            for _ in range(rnd.choice([1, 2, 2, 3])):
                a = rnd.randrange(lo, hi + 1)
                b_ = rnd.randrange(a, hi + 1)
                if rnd.random() < 0.3:
                    b_ = a
                items.append((a, b_))
            # no repeated single characters (that is C12's family)
            singles = [x for x in items if x[0] == x[1]]
            if len(singles) != len(set(singles)):
                items = list(dict.fromkeys(items))
            return set_(items)
        if r < 0.7:
            return chr_(rnd.randrange(lo, hi + 1))
        if r < 0.8:
            return any_()
        a = rnd.randrange(lo, hi)
        return set_([(a, rnd.randrange(a + 1, hi + 1))])

    def expr(d):
        if d == 0 or rnd.random() < 0.25:
            return atom()
        r = rnd.random()
        if r < 0.6:
            return diff(expr(d - 1), expr(d - 1))
        return alt(expr(d - 1), expr(d - 1))

    out = []
    tries = 0
    while len(out) < n and tries < 100 * n:
        tries += 1
        e = expr(rnd.choice([1, 2, 2, 3]))
        env = []
        if rnd.random() < 0.3 and e["k"] in ("diff", "alt"):
            env = [("cv", e["a"], -1)]
            e = dict(e, a=var("cv"))
        rules = [F.simple_rule(e), F.simple_rule(any_())]
        pts = set()
        from progs import class_iv
        try:
            iv = class_iv(e, {n_: r for n_, r, _ in env})
        except Exception:
            continue
        if not iv:
            continue
        for a, b_ in iv:
            pts |= {a - 1, a, b_, b_ + 1}
        pts |= {47, 48, 57, 58}
        pts = sorted(c for c in pts if 0 <= c <= 0x10FFFF)
        p = Program(base_id + len(out), [("Init", rules)], env=env, sigma=pts, k=1, named=False)
        if p.well_formed():
            out.append(p)
    return out


def check_C11(tier, seed):
    from common import Workspace, run_tlc, run_parallel, BUILD, HARNESS
    out = Outcome("C11")
    t0 = time.time()
    maxpoint = 3 if tier == "quick" else 4
    # Part 1: TLC on RangeMap.tla: every reachable representation x every operation
    cfg = os.path.join(BUILD, "C11_rm.cfg")
    os.makedirs(BUILD, exist_ok=True)
    with open(cfg, "w") as f:
        f.write("CONSTANTS\n  MaxPoint = %d\n  Values = {1, 2}\nINIT Init\nNEXT Next\n"
                "INVARIANTS Inv StepCorrect PrintTransition\nCHECK_DEADLOCK FALSE\n" % maxpoint)
    tlc = run_tlc("RangeMap.tla", cfg, workers=12, timeout=3000, tag="C11_rm", heap="12g")
    if not tlc.ok:
        raise ToolError("TLC found an error in RangeMap.tla itself:\n" + str(tlc.error))
    trs = tlc.tagged.get("TR", [])
    ws = Workspace("C11")
    ws.add_crate("c11_rangemap", 'include!("%s/src/main_rangemap.rs");\n' % HARNESS)
    ok, err = ws.build()
    if not ok:
        raise ToolError("range map harness does not build:\n" + err[-2000:])
    d = os.path.join(BUILD, "C11")
    tf = os.path.join(d, "transitions.ndjson")
    rf = os.path.join(d, "results.ndjson")
    with open(tf, "w") as f:
        for t in trs:
            f.write(json.dumps(t, separators=(",", ":")) + "\n")
    rcs = run_parallel([[ws.binary("c11_rangemap"), tf, rf]], timeout=1200)
    if rcs[0] != 0:
        raise ToolError("range map harness failed (rc=%s)" % rcs[0])
    points = list(range(0, maxpoint + 2))
    exact = 0
    drift = 0
    n_tr = 0
    with open(rf) as f:
        for line in f:
            r = json.loads(line)
            if r.get("done"):
                exact = r["exact"]
                n_tr = r["n"]
                continue
            t = trs[r["i"]]
            key = "range_map before=%s op=%s" % ([(x["s"], x["e"], x["v"]) for x in t["before"]], op_text(t))
            if "panic" in r:
                out.violations.append({"key": key, "desc": "RangeMap panicked: %s: %s" % (key, r["panic"][:100]),
                                       "payload": {"kind": "rangemap", "transition": t, "panic": r["panic"]}})
                continue
            act = r["actual"]
            if not well_formed(act):
                out.violations.append({"key": key, "desc": "malformed range map after %s: %s" % (key, [(x["s"], x["e"]) for x in act]),
                                       "payload": {"kind": "rangemap", "transition": t, "actual": act}})
            elif den_points(act, points) != den_points(t["after"], points):
                out.violations.append({"key": key, "desc": "wrong contents after %s: got %s expected %s" % (
                    key, [(x["s"], x["e"], x["v"]) for x in act], [(x["s"], x["e"], x["v"]) for x in t["after"]]),
                    "payload": {"kind": "rangemap", "transition": t, "actual": act}})
            else:
                drift += 1
    out.coverage = {
        "states": tlc.distinct, "transitions": tlc.states,
        "traces_validated_against_impl": exact + drift,
        "range_map_transitions_replayed": n_tr,
        "range_map_transitions_exact": exact,
        "range_map_transitions_same_meaning_other_split": drift,
        "rule": "part 1: RangeMap.tla over universe 0..%d and two value atoms: every reachable "
                "representation x every insert(a,b,v) / insert_ranges(M) / remove_ranges(M) (M any "
                "sorted disjoint list of ranges over the universe); TLC checks well-formedness and "
                "the point-wise meaning on the loop-level model and prints every transition; each "
                "is replayed into the real RangeMap (from_non_overlapping_sorted_ranges(before), "
                "the operation, iter()) and compared on well-formedness and contents at every point "
                "(exact piece equality is only a drift diagnostic); by induction this covers all "
                "operation histories over the universe; part 2: one-class lexers `<class expr> = 0, "
                "_ = 1` over the digits (sets, ranges, `_`, `|`, `#`, chained and nested differences, "
                "variables) run on every boundary point +-1 against RefLexer.tla" % maxpoint,
        "samples": [{"transition": trs[0]}] if trs else [],
        "tlc_cmd": tlc.cmd, "exhaustive": True,
    }
    # Part 2: class expressions through real lexers against the reference
    n = sizes(tier, 80, 800)
    progs = [p for p in class_family(seed, n, 100)]
    byid = {p.id: p for p in progs}
    fr = replay_family("C11", progs, workers=8, tlc_timeout=900)
    other = replay_violations(out, fr, lambda evs: proj_tokens(evs, stop_at_invalid=False), byid,
                              "a character class accepts or rejects a character it should not")
    for f_ in fr.build_failures:
        prog = byid[f_["program"]]
        out.violations.append({
            "key": "class prog=%s" % prog.body().replace("\n", " "),
            "desc": "class expression lexer failed to build (%s): %s :: %s" % (
                f_["kind"], prog.body().replace("\n", " ")[:200], f_["message"][:200]),
            "payload": {"kind": "build", "program": prog.to_json(), "src": prog.body(), "failure": f_}})
    out.coverage["class_programs"] = fr.programs
    out.coverage["class_behaviours_replayed"] = fr.runs
    out.coverage["class_mismatching_runs"] = len(fr.mismatches)
    out.coverage["states"] += fr.tlc.distinct
    out.coverage["transitions"] += fr.tlc.states
    out.coverage["traces_validated_against_impl"] += fr.ok_runs
    out.coverage["samples"] += fr.samples[:2]
    return out


# ---------------------------------------------------------------------------------------------
# C18: table generator
# ---------------------------------------------------------------------------------------------

SEG = [(0, 0), (1, 0x3FF), (0x400, 0xD7FE), (0xD7FF, 0xD7FF), (0xD800, 0xDBFF), (0xDC00, 0xDFFF),
       (0xE000, 0xE000), (0xE001, 0xFFFF), (0x10000, 0x10FFFE), (0x10FFFF, 0x10FFFF)]


def check_C18(tier, seed):
    from common import Workspace, run_tlc, run_parallel, BUILD, HARNESS
    out = Outcome("C18")
    tlc = run_tlc("CharRangeGen.tla", "MC_CharRangeGen.cfg", workers=8, timeout=900, tag="C18")
    if not tlc.ok:
        raise ToolError("TLC found an error in CharRangeGen.tla itself:\n" + str(tlc.error))
    live = run_tlc("CharRangeGen.tla", "MC_CharRangeGen_live.cfg", workers=8, timeout=900, tag="C18_live")
    if not live.ok:
        raise ToolError("TLC: CharRangeGen.tla termination failed:\n" + str(live.error))
    cases = tlc.tagged.get("CRG", [])
    ws = Workspace("C18")
    ws.add_crate("c18_crg", 'include!("%s/src/main_crg.rs");\n' % HARNESS,
                 deps='serde_json = "1"\nunicode-xid = "0.2.2"\n')
    ok, err = ws.build()
    if not ok:
        raise ToolError("table generator harness does not build:\n" + err[-2000:])
    d = os.path.join(BUILD, "C18")
    cf = os.path.join(d, "cases.ndjson")
    rf = os.path.join(d, "results.ndjson")
    with open(cf, "w") as f:
        for c in cases:
            f.write(json.dumps(c, separators=(",", ":")) + "\n")
    rcs = run_parallel([[ws.binary("c18_crg"), cf, rf]], timeout=1500)
    if rcs[0] != 0:
        raise ToolError("table generator harness failed (rc=%s)" % rcs[0])

    def concretise(rs):
        return [[SEG[a][0], SEG[b_][1]] for a, b_ in rs]

    def split_gap(rs):
        o = []
        for lo, hi in rs:
            if lo <= 0xD7FF and hi >= 0xE000:
                o += [[lo, 0xD7FF], [0xE000, hi]]
            else:
                o.append([lo, hi])
        return o

    n_ok = 0
    real = []
    with open(rf) as f:
        for line in f:
            r = json.loads(line)
            if r.get("done"):
                continue
            if "name" in r:
                real.append(r)
                key = "real predicate %s" % r["name"]
                if r.get("panic") or not r.get("equal_split") or not r.get("scalar_ends"):
                    out.violations.append({"key": key, "desc": "generator output for %s differs from the maximal runs of the predicate: %s" % (r["name"], json.dumps(r)[:300]),
                                           "payload": {"kind": "crg", "case": r}})
                else:
                    n_ok += 1
                continue
            c = cases[r["i"]]
            key = "predicate true exactly on segments %s" % c["p"]
            exp = split_gap(concretise(c["out"]))
            if r.get("panic"):
                out.violations.append({"key": key, "desc": "generator panicked for %s" % key,
                                       "payload": {"kind": "crg", "case": c}})
            elif split_gap([list(x) for x in r["ranges"]]) != exp or any(
                    0xD800 <= x <= 0xDFFF for rr in r["ranges"] for x in rr):
                out.violations.append({"key": key, "desc": "%s: generator returned %s, the maximal scalar ranges are %s" % (
                    key, [[hex(a), hex(b_)] for a, b_ in r["ranges"]], [[hex(a), hex(b_)] for a, b_ in exp]),
                    "payload": {"kind": "crg", "case": c, "actual": r["ranges"], "expected": exp}})
            else:
                n_ok += 1
    out.coverage = {
        "states": tlc.distinct + live.distinct, "transitions": tlc.states + live.states,
        "traces_validated_against_impl": n_ok,
        "abstract_predicates": len(cases), "real_predicates": len(real),
        "rule": "CharRangeGen.tla: one action per code point of an abstract universe of 10 points "
                "(8 scalar segments {0} [1..3FF] [400..D7FE] {D7FF} | gap | {E000} [E001..FFFF] "
                "[10000..10FFFE] {10FFFF}); TLC runs the machine for all 256 predicates, checks "
                "Correct (exact, scalar end points, sorted, disjoint, non-adjacent, maximal) at "
                "termination and termination itself under weak fairness; each predicate is "
                "concretised as a real fn(char)->bool and the real generator's return value is "
                "compared with the concretised model result (a run crossing the surrogate gap may be "
                "one range or split at the gap); the 20 real predicates are compared with "
                "brute-force maximal runs",
        "samples": [{"abstract_predicate": cases[0]["p"], "model_result": cases[0]["out"]}] if cases else [],
        "tlc_cmd": tlc.cmd, "exhaustive": True,
    }
    return out


# ---------------------------------------------------------------------------------------------
# C13: built-in classes
# ---------------------------------------------------------------------------------------------

BUILTINS = ["alphabetic", "alphanumeric", "ascii", "ascii_alphabetic", "ascii_alphanumeric",
            "ascii_control", "ascii_digit", "ascii_graphic", "ascii_hexdigit", "ascii_lowercase",
            "ascii_punctuation", "ascii_uppercase", "ascii_whitespace", "control", "lowercase",
            "numeric", "uppercase", "whitespace", "XID_Start", "XID_Continue"]

FAR = [(0x10FF00 + 4 * i, 0x10FF01 + 4 * i) for i in range(10)]   # ten far-away two-character ranges


def c13_module(mid, lhs, ctx=None):
    """A lexer `lhs [> ctx] = 0, ('a' = 1,) _ = 2` and its sweep function."""
    far_txt = " ".join("'\\u{%x}'-'\\u{%x}'" % (a, b_) for a, b_ in FAR)
    lhs = (lhs or "").replace("@FAR@", "[" + far_txt + "]")
    if ctx is None:
        rules = "%s = 0u8,\n            _ = 2u8," % lhs
        body = """
        let input = crate::all_scalars();
        let mut acc = vec![false; 0x110000];
        let mut n = 0usize;
        for (item, ch) in L%(m)s::new(&input).zip(input.chars()) {
            match item {
                Ok((_, 0u8, _)) => acc[ch as usize] = true,
                Ok(_) => {}
                Err(e) => panic!("lexer error at {:?}: {:?}", ch, e),
            }
            n += 1;
        }
        assert_eq!(n, 1_112_064, "number of tokens");
        crate::runs_of(&acc)""" % {"m": mid}
    else:
        rules = "'a' > %s = 0u8,\n            'a' = 1u8,\n            _ = 2u8," % ctx.replace("@FAR@", "[" + far_txt + "]")
        body = """
        let input = crate::ctx_pairs();
        let mut acc = vec![false; 0x110000];
        let chars: Vec<char> = input.chars().collect();
        let mut n = 0usize;
        for (k, item) in L%(m)s::new(&input).enumerate() {
            match item {
                Ok((_, t, _)) => {
                    if k %% 2 == 0 {
                        assert!(t == 0u8 || t == 1u8, "token {} for 'a' before {:?}", t, chars[k + 1]);
                        acc[chars[k + 1] as usize] = t == 0u8;
                    } else {
                        assert!(t == 2u8, "token {} for {:?}", t, chars[k]);
                    }
                }
                Err(e) => panic!("lexer error at token {}: {:?}", k, e),
            }
            n += 1;
        }
        assert_eq!(n, 2 * 1_112_063, "number of tokens");
        crate::runs_of(&acc)""" % {"m": mid}
    return """pub mod m%(m)s {
    lexgen::lexer! {
        pub L%(m)s -> u8;
        rule Init {
            %(rules)s
        }
    }
    pub fn sweep() -> Vec<(u32, u32)> {%(body)s
    }
}
""" % {"m": mid, "rules": rules, "body": body}


def check_C13(tier, seed):
    from common import Workspace, run_tlc, run_parallel, BUILD, HARNESS
    from progs import norm, iv_diff
    out = Outcome("C13", level="exploration")
    # TLC part: the two generated membership-test shapes over all small tables
    tlc = run_tlc("Lookup.tla", "MC_Lookup.cfg", workers=8, timeout=900, tag="C13_lookup")
    if not tlc.ok:
        raise ToolError("TLC found an error in Lookup.tla:\n" + str(tlc.error))
    # lexers
    mods = []
    plan = []   # (module id, builtin, shape)
    for bi_, name in enumerate(BUILTINS):
        mods.append(c13_module("%d_nat" % bi_, "$$%s" % name))
        plan.append(("%d_nat" % bi_, name, "natural"))
        mods.append(c13_module("%d_far" % bi_, "$$%s | @FAR@" % name))
        plan.append(("%d_far" % bi_, name, "union-with-ten-ranges"))
        mods.append(c13_module("%d_low" % bi_, "$$%s # ['\\u{100}'-'\\u{10ffff}']" % name))
        plan.append(("%d_low" % bi_, name, "minus-everything-from-U+100"))
        if tier == "thorough" or bi_ % 4 == seed % 4:
            mods.append(c13_module("%d_ctx" % bi_, None, ctx="$$%s" % name))
            plan.append(("%d_ctx" % bi_, name, "right-context"))
    reg = ", ".join('("%s", m%s::sweep as fn() -> Vec<(u32, u32)>)' % (m, m) for m, _, _ in plan)
    gen = "\n".join(mods) + "\npub fn sweeps() -> Vec<(&'static str, fn() -> Vec<(u32, u32)>)> { vec![%s] }\n" % reg
    # split over several binaries so that rustc runs in parallel
    nb = 8
    ws = Workspace("C13", opt_level=1)
    names = []
    per = [[] for _ in range(nb)]
    for k, (m, _, _) in enumerate(plan):
        per[k % nb].append(k)
    for bi_ in range(nb):
        sel = per[bi_]
        text = "\n".join(mods[k] for k in sel) + "\npub fn sweeps() -> Vec<(&'static str, fn() -> Vec<(u32, u32)>)> { vec![%s] }\n" % (
            ", ".join('("%s", m%s::sweep as fn() -> Vec<(u32, u32)>)' % (plan[k][0], plan[k][0]) for k in sel))
        name = "c13_b%d" % bi_
        d = os.path.join(ws.crate_dir(name), "src")
        os.makedirs(d, exist_ok=True)
        with open(os.path.join(d, "generated.rs"), "w") as f:
            f.write(text)
        ws.add_crate(name, 'mod generated;\ninclude!("%s/src/main_builtin.rs");\n' % HARNESS,
                     deps='serde_json = "1"\nunicode-xid = "0.2.2"\nlexgen = { path = "%s/crates/lexgen" }\nlexgen_util = { path = "%s/crates/lexgen_util" }\n' % (
                         __import__("common").REPO, __import__("common").REPO))
        names.append(name)
    ok, err = ws.build(timeout=2400)
    if not ok:
        # which lexer? report as violation of C13/C12 with the diagnostics
        out.violations.append({"key": "build of built-in lexers", "desc": "lexers using built-in classes do not build: " + err[-600:],
                               "payload": {"kind": "build", "stderr": err[-4000:]}})
        out.coverage = {"evaluations": 1, "distinct_nontrivial": 2, "rule": "build failed", "samples": [err[-300:]]}
        return out
    d = os.path.join(BUILD, "C13")
    cmds = []
    outs = []
    for name in names:
        o = os.path.join(d, name + ".json")
        if os.path.exists(o):
            os.remove(o)
        cmds.append([ws.binary(name), o])
        outs.append(o)
    rcs = run_parallel(cmds, timeout=2400)
    sweeps = {}
    preds = {}
    for rc, o in zip(rcs, outs):
        if rc != 0 or not os.path.exists(o):
            raise ToolError("built-in sweep runner failed (rc=%s)" % rc)
        with open(o) as f:
            r = json.load(f)
        for sw in r["sweeps"]:
            sweeps[sw["id"]] = sw
        for p_ in r["predicates"]:
            preds[p_["name"].lower()] = [tuple(x) for x in p_["runs"]]
    evals = 0
    nontrivial = set()
    samples = []

    def sym_diff(a, b_):
        return norm(iv_diff(a, b_) + iv_diff(b_, a))

    import hashlib
    natural = {}
    for mid, name, shape in plan:
        sw = sweeps.get(mid)
        if sw is None:
            raise ToolError("no result for sweep %s" % mid)
        oracle = preds[name.lower()]
        if "panic" in sw:
            out.violations.append({"key": "builtin=%s shape=%s panic" % (name, shape),
                                   "desc": "$$%s (%s): %s" % (name, shape, sw["panic"][:300]),
                                   "payload": {"kind": "builtin", "name": name, "shape": shape, "panic": sw["panic"]}})
            continue
        got = [tuple(x) for x in sw["runs"]]
        evals += 1112064
        if shape == "natural":
            natural[name] = got
            want = oracle
        else:
            base = natural.get(name, oracle)
            if shape == "union-with-ten-ranges":
                want = norm(base + FAR)
            elif shape == "minus-everything-from-U+100":
                want = iv_diff(base, [(0x100, 0x10FFFF)])
            else:
                want = iv_diff(base, [(97, 97)])   # 'a' itself is not swept in the context lexer
                got = iv_diff(got, [(97, 97)])
        nontrivial.add((name, shape, len(got)))
        df = sym_diff(got, want)
        if df:
            n_bad = sum(b_ - a + 1 for a, b_ in df)
            digest = hashlib.sha1(json.dumps(df).encode()).hexdigest()[:12]
            what = ("table differs from the Rust predicate" if shape == "natural"
                    else "accepts a different set than the same class in its natural shape")
            out.violations.append({
                "key": "builtin=%s shape=%s mismatch=%s" % (name, shape, digest),
                "desc": "$$%s (%s) %s on %d scalar values, first U+%04X..U+%04X" % (
                    name, shape, what, n_bad, df[0][0], df[0][1]),
                "payload": {"kind": "builtin", "name": name, "shape": shape, "mismatch_ranges": df[:50],
                            "n_mismatching": n_bad}})
        if len(samples) < 3:
            samples.append({"builtin": name, "shape": shape, "accepted_runs_head": got[:5], "n_runs": len(got)})
    out.coverage = {
        "evaluations": evals,
        "distinct_nontrivial": len(nontrivial),
        "rule": "for each of the 20 built-in names, lexers `$$n = 0, _ = 2` in the natural shape, "
                "`$$n | <ten far-away ranges>` (forces the binary-search table), `$$n # [U+100-U+10FFFF]` "
                "(forces the guard chain for the big classes) and, for a rotating subset (all in the "
                "thorough tier), `'a' > $$n` (right-context membership test) are compiled with the real "
                "macro and run on a string of all 1,112,064 scalar values; the natural shape is compared "
                "with char::is_* / unicode-xid (oracle imported at check time), the other shapes with "
                "the natural shape; non-trivial = distinct (built-in, shape); TLC (Lookup.tla) checks "
                "that both generated membership-test shapes equal union membership for all sorted "
                "disjoint tables over a small universe",
        "samples": samples,
        "exhaustive": True,
        "lookup_spec_states": tlc.distinct,
        "tlc_cmd": tlc.cmd,
    }
    return out


def setup():
    """Warm the cargo target directory (dependencies, lexgen with hooks) and check the tools."""
    import subprocess
    from pipeline import build_family
    progs = F.fixed_mm(1)[:1]
    ws, batches, failures = build_family("setup", progs)
    if failures:
        raise ToolError("setup: the smoke-test lexer failed to build: %s" % failures)
    cp = subprocess.run(["java", "-version"], capture_output=True, text=True)
    if cp.returncode != 0:
        raise ToolError("java not available")


CHECKS = {
    "C01": check_C01,
    "C03": check_C03,
    "C04": check_C04,
    "C05": check_C05,
    "C06": check_C06,
    "C07": check_C07,
    "C08": check_C08,
    "C09": check_C09,
    "C10": check_C10,
    "C11": check_C11,
    "C13": check_C13,
    "C14": check_C14,
    "C15": check_C15,
    "C18": check_C18,
}

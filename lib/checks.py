"""Per-property checks. Each returns an Outcome; `check` turns it into exit code, VIOLATION /
KNOWN-FINDING lines and the evidence file."""

import json
import os
import time

import families as F
from common import (BUILD, ToolError, load_known_findings, log, write_evidence, write_replay)
from pipeline import replay_family
from progs import Program


class Outcome:
    def __init__(self, pid, level="model_checking"):
        self.pid = pid
        self.level = level
        self.violations = []     # dicts: key, desc, payload
        self.coverage = {}
        self.assumptions = []
        self.notes = []


# ---------------------------------------------------------------------------------------------
# Observation projections (DESIGN 2.2): a check judges only its own property.
# ---------------------------------------------------------------------------------------------

def b(loc):
    return loc[2]


def proj_tokens(evs, stop_at_invalid=True, with_errors_loc=False):
    """(rule, lexeme byte span) of every action invocation and token; error kinds."""
    out = []
    for e in evs:
        k = e["k"]
        if k == "A":
            out.append(("A", e["r"], b(e["ms"]), b(e["me"])))
        elif k == "T":
            out.append(("T", e["r"], b(e["s"]), b(e["e"])))
        elif k == "I":
            out.append(("I", b(e["at"])) if with_errors_loc else ("I",))
            if stop_at_invalid:
                break
        elif k == "C":
            out.append(("C", e["r"], b(e["at"])) if with_errors_loc else ("C", e["r"]))
        elif k == "N":
            out.append(("N",))
        elif k in "PH":
            out.append((k,))
            break
    return out


def first_divergence(exp, act):
    n = min(len(exp), len(act))
    for i in range(n):
        if exp[i] != act[i]:
            return i
    return n if len(exp) != len(act) else -1


def strip_lx(evs):
    out = []
    for e in evs:
        e = dict(e)
        e.pop("lx", None)
        out.append(e)
    return out


def replay_violations(out, fr, proj, byid, what, max_report=5):
    """Turn mismatches whose projection differs into violations; count the others."""
    other = 0
    seen_progs = set()
    for m in fr.mismatches:
        req = m["req"]
        exp = req["ev"]
        act = strip_lx(m["actual"])
        pe, pa = proj(exp), proj(act)
        if pe == pa:
            other += 1
            continue
        prog = byid[req["p"]]
        key = "prog=%s input=%s script=%s ctor=%d" % (
            prog.body().replace("\n", " ").replace("  ", " "), req["inp"], req["script"], req["ctor"])
        if len(out.violations) < 200:
            out.violations.append({
                "key": key,
                "desc": "%s: program %d input %s: expected %s, real lexer gave %s" % (
                    what, req["p"], req["inp"], pe[:8], pa[:8]),
                "payload": {
                    "kind": "replay", "program": prog.to_json(), "src": prog.body(),
                    "input": req["inp"], "script": req["script"], "ctor": req["ctor"],
                    "clone_at": req["clone_at"], "sched": req["sched"],
                    "expected": exp, "actual": act,
                    "first_divergence": first_divergence(pe, pa),
                },
            })
    return other


def base_coverage(fr, rule):
    tlc = fr.tlc
    return {
        "states": tlc.distinct,
        "transitions": tlc.states,
        "traces_validated_against_impl": fr.ok_runs,
        "programs": fr.programs,
        "behaviours_enumerated": fr.behaviours,
        "runs_replayed": fr.runs,
        "mismatching_runs": len(fr.mismatches),
        "build_failures": fr.build_failures[:10],
        "rule": rule,
        "samples": fr.samples,
        "tlc_cmd": tlc.cmd,
        "tlc_wall_s": round(tlc.wall, 1),
        "build_wall_s": round(fr.build_wall, 1),
        "run_wall_s": round(fr.run_wall, 2),
        "exhaustive": True,
    }


def sizes(tier, quick, thorough):
    return thorough if tier == "thorough" else quick


def loc3(l):
    return tuple(l)


def proj_c04(evs):
    out = []
    for e in evs:
        k = e["k"]
        if k == "A":
            out.append(("A", e["r"], b(e["ms"]), b(e["me"]), e["pk"]))
        elif k == "T":
            out.append(("T", e["r"], b(e["s"]), b(e["e"])))
        elif k == "I":
            out.append(("I",))
            break
        elif k == "C":
            out.append(("C", e["r"]))
        elif k == "N":
            out.append(("N",))
        elif k in "PH":
            out.append((k,))
            break
    return out


def proj_c05(evs):
    return proj_tokens(evs, stop_at_invalid=True, with_errors_loc=True)


def proj_c06(evs):
    """Every location triple and match text, up to the first InvalidToken (inclusive)."""
    out = []
    for e in evs:
        k = e["k"]
        if k == "A":
            out.append(("A", e["r"], loc3(e["ms"]), loc3(e["me"]), tuple(e.get("tx", ()))))
        elif k == "T":
            out.append(("T", e["r"], loc3(e["s"]), loc3(e["e"])))
        elif k == "I":
            out.append(("I", loc3(e["at"])))
            break
        elif k == "C":
            out.append(("C", e["r"], loc3(e["at"])))
        elif k == "N":
            out.append(("N",))
        elif k in "PH":
            out.append((k,))
            break
    return out


def proj_c07(evs):
    """Items: tokens by rule and byte span, errors in full (kind, payload, location)."""
    out = []
    for e in evs:
        k = e["k"]
        if k == "T":
            out.append(("T", e["r"], b(e["s"]), b(e["e"])))
        elif k == "I":
            out.append(("I", loc3(e["at"])))
            break
        elif k == "C":
            out.append(("C", e["r"], e["q"], loc3(e["at"])))
        elif k == "N":
            out.append(("N",))
        elif k in "PH":
            out.append((k,))
            break
    return out


def proj_c08(evs):
    """Everything that follows errors: the whole trace, InvalidToken reduced to its kind."""
    out = []
    for e in evs:
        k = e["k"]
        if k == "A":
            out.append(("A", e["r"], e["n"], b(e["ms"]), b(e["me"])))
        elif k == "T":
            out.append(("T", e["r"], b(e["s"]), b(e["e"])))
        elif k == "I":
            out.append(("I",))
        elif k == "C":
            out.append(("C", e["r"]))
        elif k == "N":
            out.append(("N",))
        elif k == "S":
            out.append(("S", e["n"]))
        elif k in "PH":
            out.append((k,))
            break
    return out


def proj_c10(evs):
    """The action protocol: every invocation in full, every token / custom error in full."""
    out = []
    for e in evs:
        k = e["k"]
        if k == "A":
            out.append(("A", e["r"], e["n"], loc3(e["ms"]), loc3(e["me"]), tuple(e.get("tx", ())),
                        e["pk"], e["ch"]))
        elif k == "T":
            out.append(("T", e["r"], e["q"], loc3(e["s"]), loc3(e["e"])))
        elif k == "I":
            out.append(("I",))
            break
        elif k == "C":
            out.append(("C", e["r"], e["q"]))
        elif k == "N":
            out.append(("N",))
        elif k == "S":
            out.append(("S", e["n"]))
        elif k in "PH":
            out.append((k,))
            break
    return out


def generic_replay_check(pid, tier, progs, proj, what, rule, ctors=(0,), clone_points=False,
                         workers=None, **kw):
    out = Outcome(pid)
    byid = {p.id: p for p in progs}
    fr = replay_family(pid, progs, ctors=ctors, clone_points=clone_points,
                       workers=workers or (8 if tier == "quick" else 14),
                       tlc_timeout=700 if tier == "quick" else 3300, **kw)
    other = replay_violations(out, fr, proj, byid, what)
    for f in fr.build_failures:
        out.notes.append("program %d dropped: %s (%s) -- judged by C12" % (
            f["program"], f["kind"], f["message"][:100]))
    out.coverage = base_coverage(fr, rule)
    out.coverage["mismatches_outside_projection"] = other
    out.coverage["dropped_programs"] = len(fr.build_failures)
    out.fr = fr
    out.byid = byid
    return out


INPUTS_RULE = ("inputs: every string of length <= k over the program's alphabet (letters used by "
               "the rules plus one foreign letter); TLC enumerates every behaviour of RefLexer.tla "
               "(every decision history the rules' menus allow), each expected trace is replayed "
               "into the real generated lexer; ")


def check_C01(tier, seed):
    n, k = sizes(tier, (70, 4), (900, 5))
    progs = (F.fixed_mm(1) + F.random_mm(seed, n, 100, k=k)
             + F.random_general(seed + 1, n // 3, 5000, k=k, nsets=(1,), nrules=(2, 3, 4, 5), p_sugar=0.3,
                                menu_sizes=(1,), p_fal=0.0, named=False, depth=3))
    for p in progs:
        if p.id >= 5000:
            for r in p.rules():
                if r["kind"] == "inf":
                    r["menu"] = [F.D(False, -1, 1)]
    return generic_replay_check(
        "C01", tier, progs, proj_tokens,
        "token sequence differs from the maximal-munch reference",
        "programs: 10 fixed maximal-munch shapes (the property's own examples, issue 16, cycles and "
        "joins) + seeded random 2-6 rule single-rule-set definitions with and without `rule` "
        "blocks; " + INPUTS_RULE + "compared: (rule, lexeme byte span) of every action and token")


def check_C03(tier, seed):
    n, k = sizes(tier, (60, 3), (700, 4))
    progs = F.random_general(seed, n, 100, k=k, nsets=(2, 2, 3, 3, 4), nrules=(0, 1, 2, 2, 3),
                             menu_sizes=(1, 2, 2, 3), p_fal=0.2)
    return generic_replay_check(
        "C03", tier, progs, proj_tokens,
        "a rule of a rule set that is not active ran (or the wrong rule set was entered)",
        "programs: seeded random definitions with 2-4 rule sets (empty ones included), every rule "
        "with a menu of 1-3 decisions among continue/return x reset x switch-to-any-rule-set; "
        + INPUTS_RULE + "compared: (rule, lexeme span) of every action and token up to the first "
        "InvalidToken")


def check_C04(tier, seed):
    n, k = sizes(tier, (60, 4), (700, 5))
    progs = F.random_general(seed, n, 100, k=k, nsets=(1, 1, 2), nrules=(2, 3, 3, 4), p_ctx=0.55,
                             p_eoi=0.15, menu_sizes=(1,), p_fal=0.0, p_sugar=0.2, allow_switch=False)
    for p in progs:
        for r in p.rules():
            if r["kind"] == "inf":
                r["menu"] = [F.D(False, -1, 1)]
    return generic_replay_check(
        "C04", tier, progs, proj_c04,
        "a rule with a right context matched/was skipped wrongly, or the context was consumed",
        "programs: seeded random definitions in which about half of the rules carry a right context "
        "(literals, sets, repetition, `$`, nullable contexts) in any priority position; "
        + INPUTS_RULE + "compared: (rule, lexeme span, next character seen by the action) of every "
        "action and token up to the first InvalidToken")


def check_C05(tier, seed):
    n, k = sizes(tier, (60, 4), (700, 5))
    progs = (F.random_general(seed, n // 2, 100, k=k, nsets=(1, 2, 2, 3), nrules=(1, 2, 2, 3), p_eoi=0.4,
                              menu_sizes=(1, 2), p_fal=0.2, letters=(F.A, F.B), sigma=(F.A, F.B, 120))
             + F.random_general(seed + 1, n // 2, 3000, k=k, nsets=(1,), nrules=(1, 2, 3), p_eoi=0.5,
                                menu_sizes=(1, 2), p_fal=0.0, named=False, letters=(F.A, F.B),
                                sigma=(F.A, F.B, 120)))
    return generic_replay_check(
        "C05", tier, progs, proj_c05,
        "end-of-input protocol violated ($ rule, None/InvalidToken at the end, fused stream)",
        "programs: seeded random definitions over {a,b} with `$`-tailed rules in Init and in other "
        "rule sets (40-50% of rules), with and without `rule` blocks; " + INPUTS_RULE +
        "the input therefore ends at every point (inside a lexeme, after a match, after a rewind, "
        "in any rule set); compared: every action and item with byte positions up to the first "
        "InvalidToken, and four further next() calls after the first None")


LOC_SIGMA = (97, 10, 9, 233, 769, 28450, 128512)


def check_C06(tier, seed):
    n, k = sizes(tier, (40, 3), (300, 4))
    progs = F.random_general(seed, n, 100, k=k, nsets=(1,), nrules=(2, 3, 4), p_eoi=0.1,
                             menu_sizes=(1, 2), p_fal=0.1, letters=LOC_SIGMA[:6] if False else (97, 10, 9, 233, 769, 28450, 128512),
                             sigma=LOC_SIGMA, depth=2)
    return generic_replay_check(
        "C06", tier, progs, proj_c06,
        "a location (line, column, byte index) or match text differs from the fold over the input",
        "programs: seeded random definitions over the location alphabet {a, newline, tab, e-acute "
        "(2 bytes), combining acute (2 bytes, width 0), CJK (3 bytes, width 2), emoji (4 bytes, "
        "width 2)} whose rules overlap so that lexers rewind; " + INPUTS_RULE +
        "compared: all Loc triples of match_loc(), tokens and errors, and match_() text")


def check_C07(tier, seed):
    n, k = sizes(tier, (60, 3), (700, 4))
    progs = F.random_general(seed, n, 100, k=k, nsets=(1, 1, 2), nrules=(2, 3, 4), p_ctx=0.15,
                             menu_sizes=(1, 2, 3), p_fal=0.6, p_sugar=0.15)
    return generic_replay_check(
        "C07", tier, progs, proj_c07,
        "an error item differs (kind, payload or location), or an error was raised although a rule matches",
        "programs: seeded random definitions with 60% fallible (`=?`) rules whose menus include "
        "Err decisions with and without reset_match()/continue_ accumulation; " + INPUTS_RULE +
        "compared: every item; errors in full (kind, payload, line/col/byte)")


def check_C08(tier, seed):
    n, k = sizes(tier, (60, 4), (700, 5))
    progs = F.random_general(seed, n, 100, k=k, nsets=(2, 2, 3), nrules=(1, 2, 2, 3),
                             menu_sizes=(1, 2), p_fal=0.1, letters=(F.A, F.B), sigma=(F.A, F.B, 120))
    return generic_replay_check(
        "C08", tier, progs, proj_c08,
        "after an InvalidToken the lexer did not resume right after the examined text, in Init, and stay there",
        "programs: seeded random multi-rule-set definitions over {a,b} (inputs also contain the "
        "unlexable letter x) with switch/continue/return menus; " + INPUTS_RULE +
        "compared: the whole trace after every InvalidToken (actions with user-state counter, "
        "tokens, further errors, final user state)")


def check_C10(tier, seed):
    n, k = sizes(tier, (60, 3), (700, 4))
    progs = (F.random_general(seed, n, 100, k=k, nsets=(1, 2, 2), nrules=(2, 3, 4),
                              menu_sizes=(2, 3, 3), p_fal=0.4, p_sugar=0.3))
    return generic_replay_check(
        "C10", tier, progs, proj_c10,
        "the semantic-action protocol was violated (invocation, match text/loc, peek, token span, sugar)",
        "programs: seeded random definitions mixing `re,` / `re = t` / `=>` / `=?` rules, every "
        "non-sugar rule with a menu of 2-3 decisions (continue/return/Err x reset_match x switch); "
        + INPUTS_RULE + "compared: every action invocation in full (rule, user-state counter, "
        "match_loc, match_ text, peek, decision) and every token / custom error in full")


# ---------------------------------------------------------------------------------------------
# Implementation -> specification on random long inputs (trace validation by TLC)
# ---------------------------------------------------------------------------------------------

def scripted_expected(tag, prog, inp, script):
    """Expected behaviour of RefLexer for one input and the decisions the real run was offered."""
    import copy
    from pipeline import tlc_expected
    q = copy.copy(prog)
    q.inputs = [list(inp)]
    res = tlc_expected(tag + "_exp", [q], workers=2, timeout=300)
    if not res.ok:
        raise ToolError("TLC failed computing the expected behaviour: %s" % res.error)
    rules = prog.rules()
    for rp in res.tagged.get("REPLAY", []):
        ok = True
        j = 0
        for e in rp["ev"]:
            if e["k"] == "A":
                want = (script[j] if j < len(script) else 0) % len(rules[e["r"]]["menu"])
                if e["ch"] != want:
                    ok = False
                    break
                j += 1
        if ok:
            return rp["ev"]
    raise ToolError("no specification behaviour follows the offered script")


def random_inputs(rnd, prog, n_runs, maxlen, extra=()):
    reqs = []
    sig = prog.sigma
    for t in range(n_runs):
        r = rnd.random()
        if r < 0.05:
            inp = []
        elif r < 0.15:
            inp = [rnd.choice(sig)] * rnd.randrange(1, maxlen)
        else:
            n = rnd.randrange(1, maxlen)
            # biased towards the program's own letters, with a few foreign characters
            inp = [rnd.choice(sig) for _ in range(n)]
        script = [rnd.randrange(6) for _ in range(len(inp) + 2)]
        reqs.append({"p": prog.id, "inp": inp, "script": script, "ctor": 0, "clone_at": -1,
                     "sched": []})
    for inp in extra:
        reqs.append({"p": prog.id, "inp": list(inp), "script": [], "ctor": 0, "clone_at": -1,
                     "sched": [], "notx": True})
    return reqs


def corrupt(run, rnd):
    """A deliberately wrong copy of a recorded run (must be rejected: binding self-test)."""
    import copy
    r = copy.deepcopy(run)
    evs = r["ev"]
    cands = [i for i, e in enumerate(evs) if e["k"] in ("T", "A", "I", "C")]
    if not cands:
        evs.insert(0, {"k": "I", "at": [0, 0, 0]})
        return r
    i = rnd.choice(cands)
    e = evs[i]
    if e["k"] == "T":
        e["e"] = [e["e"][0], e["e"][1] + 1, e["e"][2] + 1]
    elif e["k"] == "A":
        e["r"] = e["r"] + 1
    else:
        e["at"] = [e["at"][0], e["at"][1] + 1, e["at"][2] + 1]
    return r


def trace_part(out, pid, tier, progs, ws, batches, seed, n_runs, maxlen, proj, what,
               ctors=(0,), extra_inputs=(), max_validate_len=80):
    """Run the real lexers freely on random inputs, validate every recorded run with TLC against
    Trace_RefLexer; for rejected runs compute the expected behaviour and judge by projection."""
    import random
    from pipeline import run_requests, validate_traces
    rnd = random.Random(seed * 7919 + 13)
    byid = {p.id: p for p in progs}
    live = {p.id for b_ in batches for p in b_}
    reqs = []
    for p in progs:
        if p.id not in live:
            continue
        rs = random_inputs(rnd, p, n_runs, maxlen, extra_inputs)
        for r in rs:
            r["ctor"] = rnd.choice(list(ctors))
        reqs.extend(rs)
    results = run_requests(ws, batches, reqs, pid)
    runs = []
    for i, (rq, rs) in enumerate(zip(reqs, results)):
        if rs is None:
            continue
        runs.append({"i": i, "p": rq["p"], "inp": rq["inp"], "ev": rs["ev"]})
    tovalidate = [r for r in runs if len(r["inp"]) <= max_validate_len]
    canaries = []
    for r in rnd.sample(tovalidate, min(20, len(tovalidate))):
        c = corrupt(r, rnd)
        c["i"] = -1 - len(canaries)
        canaries.append(c)
    tlc, accepted = validate_traces(pid, progs, tovalidate + canaries,
                                    workers=8 if tier == "quick" else 14)
    bad_canaries = [c for c in canaries if c["i"] in accepted]
    if bad_canaries:
        raise ToolError("trace validation accepted a deliberately corrupted recording: %s"
                        % json.dumps(bad_canaries[0])[:500])
    rejected = [r for r in tovalidate if r["i"] not in accepted]
    other = 0
    for r in rejected[:40]:
        rq = reqs[r["i"]]
        prog = byid[r["p"]]
        exp = scripted_expected(pid, prog, r["inp"], rq["script"])
        act = strip_lx(r["ev"])
        if rq["ctor"] >= 2:
            exp = [{k: v for k, v in e.items() if k != "tx"} for e in exp]
        pe, pa = proj(exp), proj(act)
        if pe == pa:
            other += 1
            continue
        out.violations.append({
            "key": "prog=%s input=%s script=%s ctor=%d" % (
                prog.body().replace("\n", " ").replace("  ", " "), r["inp"], rq["script"], rq["ctor"]),
            "desc": "%s (recorded run rejected by Trace_RefLexer): program %d input %s: expected %s, real lexer gave %s" % (
                what, r["p"], r["inp"][:30], pe[:8], pa[:8]),
            "payload": {"kind": "replay", "program": prog.to_json(), "src": prog.body(),
                        "input": r["inp"], "script": rq["script"], "ctor": rq["ctor"],
                        "clone_at": -1, "sched": [], "expected": exp, "actual": act,
                        "first_divergence": first_divergence(pe, pa)},
        })
    cov = out.coverage
    cov["random_runs_recorded"] = len(runs)
    cov["random_runs_validated_by_tlc"] = len(tovalidate)
    cov["random_runs_accepted"] = len(tovalidate) - len(rejected)
    cov["random_runs_rejected"] = len(rejected)
    cov["random_rejected_outside_projection"] = other
    cov["corrupted_recordings_rejected"] = len(canaries)
    cov["trace_states"] = tlc.distinct
    cov["trace_tlc_wall_s"] = round(tlc.wall, 1)
    cov["traces_validated_against_impl"] = cov.get("traces_validated_against_impl", 0) + len(tovalidate) - len(rejected)
    cov["states"] = cov.get("states", 0) + tlc.distinct
    cov["transitions"] = cov.get("transitions", 0) + tlc.states
    if tovalidate:
        cov.setdefault("samples", []).append({"recorded_run": {k: tovalidate[0][k] for k in ("p", "inp", "ev")}})
    return runs, reqs


def c09_reason(evs, n_chars, free_running):
    items = 0
    acts = 0
    saw_none = False
    for e in evs:
        k = e["k"]
        if k == "P":
            return "panic: %s" % e.get("msg", "")[:200]
        if k == "H":
            return "a next() call did not return (watchdog)"
        if k == "A" and not saw_none:
            acts += 1
        if k in "TIC":
            if saw_none:
                return "an item was produced after None"
            items += 1
        if k == "N":
            saw_none = True
    if items > n_chars + 1:
        return "%d items before None for %d characters" % (items, n_chars)
    if acts > n_chars + 1:
        return "%d action invocations for %d characters" % (acts, n_chars)
    if free_running and not saw_none:
        return "no None within %d calls for %d characters" % (n_chars + 6, n_chars)
    return None


def check_C09(tier, seed):
    out = Outcome("C09")
    n, k = sizes(tier, (50, 3), (500, 4))
    progs = (F.random_general(seed, n, 100, k=k, nsets=(1, 2, 3), nrules=(0, 1, 2, 3, 4), p_ctx=0.2,
                              p_eoi=0.2, menu_sizes=(1, 2, 3), p_fal=0.3)
             + F.fixed_mm(5000))
    byid = {p.id: p for p in progs}
    fr = replay_family("C09", progs, workers=8 if tier == "quick" else 14,
                       tlc_timeout=700 if tier == "quick" else 3300)
    out.coverage = base_coverage(
        fr, "programs: seeded random definitions of every kind (several rule sets, empty rule sets, "
            "contexts, `$` rules, all decision menus) + the fixed maximal-munch shapes; part 1: every "
            "behaviour of RefLexer.tla for all inputs of length <= k replayed (TLC also checks the "
            "variant Progress and the bound Bounded on the specification); part 2: the real lexers "
            "run freely (until None plus three calls, budget n+6 calls, panics caught, watchdog) on "
            "random inputs up to 60 characters, the empty input, runs of one repeated character and "
            "long inputs; each recording <= 80 characters is validated by TLC against "
            "Trace_RefLexer.tla; non-trivial = distinct (program, input, script)")

    def judge(desc_prefix, prog, req, actual, free):
        why = c09_reason(actual, len(req["inp"]), free)
        if why is None:
            return False
        out.violations.append({
            "key": "prog=%s input=%s script=%s" % (prog.body().replace("\n", " ").replace("  ", " "),
                                                   req["inp"][:50], req["script"][:50]),
            "desc": "%s program %d input %s (len %d): %s" % (desc_prefix, prog.id, req["inp"][:20],
                                                            len(req["inp"]), why),
            "payload": {"kind": "replay", "program": prog.to_json(), "src": prog.body(),
                        "input": req["inp"], "script": req["script"], "ctor": req.get("ctor", 0),
                        "clone_at": -1, "sched": [], "actual": actual[:200], "why": why},
        })
        return True

    other = 0
    for m in fr.mismatches:
        if not judge("replay:", byid[m["req"]["p"]], m["req"], strip_lx(m["actual"]), False):
            other += 1
    out.coverage["mismatches_outside_projection"] = other
    if fr.ws is not None:
        live = [p for b_ in fr.batches for p in b_]
        longn = 20000 if tier == "quick" else 100000
        extra = []
        runs, reqs = trace_part(out, "C09", tier, progs, fr.ws, fr.batches, seed,
                                sizes(tier, 40, 300), 60, lambda evs: [c09_reason(evs, 10 ** 9, False)],
                                "termination/progress/panic-freedom",
                                extra_inputs=[[c] * longn for c in (97, 120)] + [[120, 97] * 500])
        n_long = 0
        for r in runs:
            rq = reqs[r["i"]]
            judge("free run:", byid[r["p"]], rq, strip_lx(r["ev"]), True)
            if len(r["inp"]) > 80:
                n_long += 1
        out.coverage["long_runs_checked_by_count_only"] = n_long
    for f in fr.build_failures:
        out.notes.append("program %d dropped: %s -- judged by C12" % (f["program"], f["kind"]))
    # de-duplicate violations found through both routes
    seen = set()
    uniq = []
    for v in out.violations:
        if v["key"] not in seen:
            seen.add(v["key"])
            uniq.append(v)
    out.violations = uniq
    return out


def check_C14(tier, seed):
    """The four constructors: every behaviour replayed through each; the four recorded streams
    must be the same stream (the reference stream serves as the common oracle)."""
    out = Outcome("C14")
    n, k = sizes(tier, (40, 3), (400, 4))
    progs = (F.random_general(seed, n, 100, k=k, nsets=(1, 2, 2), nrules=(1, 2, 3, 4), p_ctx=0.2,
                              p_eoi=0.2, menu_sizes=(1, 2), p_fal=0.2, sigma=(F.A, F.B, F.C, 233, 28450))
             + F.fixed_mm(5000)[:6])
    byid = {p.id: p for p in progs}
    fr = replay_family("C14", progs, ctors=(0, 1, 2, 3), workers=8 if tier == "quick" else 14,
                       tlc_timeout=700 if tier == "quick" else 3300)
    out.coverage = base_coverage(
        fr, "programs: seeded random definitions (rewinding rules, contexts, `$`, several rule "
            "sets, multi-byte characters in the alphabet); every behaviour of RefLexer.tla for all "
            "inputs <= k is replayed through new, new_with_state, new_from_iter and "
            "new_from_iter_with_state (iterator: a cloneable iterator over shared storage); the "
            "four recorded streams (without match_() text) must be identical; then random inputs "
            "up to 60 characters through a random constructor each, validated by TLC against "
            "Trace_RefLexer.tla")
    # group by behaviour
    actual = {}
    for m in fr.mismatches:
        rq = m["req"]
        actual[(rq["p"], tuple(rq["inp"]), tuple(rq["script"]), rq["ctor"])] = strip_lx(m["actual"])

    def notx(evs):
        return [{k_: v for k_, v in e.items() if k_ != "tx"} for e in evs]

    groups = {}
    for m in fr.mismatches:
        rq = m["req"]
        groups.setdefault((rq["p"], tuple(rq["inp"]), tuple(rq["script"])), rq)
    other = 0
    for key, rq in groups.items():
        streams = []
        for c in (0, 1, 2, 3):
            a = actual.get(key + (c,))
            streams.append(notx(a if a is not None else rq["ev"]))
        if all(s_ == streams[0] for s_ in streams):
            other += 1
            continue
        prog = byid[key[0]]
        dif = [c for c in (1, 2, 3) if streams[c] != streams[0]]
        out.violations.append({
            "key": "prog=%s input=%s script=%s" % (prog.body().replace("\n", " ").replace("  ", " "),
                                                   list(key[1]), list(key[2])),
            "desc": "constructors disagree: program %d input %s: constructor(s) %s give a different stream than `new`" % (
                key[0], list(key[1]), dif),
            "payload": {"kind": "replay", "program": prog.to_json(), "src": prog.body(),
                        "input": list(key[1]), "script": list(key[2]), "ctor": dif[0], "clone_at": -1,
                        "sched": [], "expected": rq["ev"], "streams": streams},
        })
    out.coverage["mismatches_outside_projection"] = other
    if fr.ws is not None:
        trace_part(out, "C14", tier, progs, fr.ws, fr.batches, seed, sizes(tier, 30, 200), 60,
                   lambda evs: [{k_: v for k_, v in e.items() if k_ not in ("tx",)} for e in evs],
                   "stream of an iterator-built lexer differs from the specification",
                   ctors=(0, 1, 2, 3))
    return out


def check_C15(tier, seed):
    """Clone at every point: original and clone must both continue with the reference stream."""
    out = Outcome("C15")
    n, k = sizes(tier, (30, 3), (300, 4))
    progs = F.random_general(seed, n, 100, k=k, nsets=(1, 2, 2), nrules=(1, 2, 3), p_ctx=0.2,
                             p_eoi=0.2, menu_sizes=(1, 2), p_fal=0.25)
    byid = {p.id: p for p in progs}
    fr = replay_family("C15", progs, ctors=(0, 2), clone_points=True,
                       workers=8 if tier == "quick" else 14,
                       tlc_timeout=700 if tier == "quick" else 3300)
    out.coverage = base_coverage(
        fr, "programs: seeded random definitions with #[derive(Clone)] and a cloneable user state; "
            "for every behaviour of RefLexer.tla (all inputs <= k, all decision histories) and "
            "every clone point (before the first call, after every call including errors, "
            "switches and the final None) the real lexer is cloned and original and clone are "
            "advanced under three interleavings; both recorded suffix streams and both final user "
            "states must equal the specification's (which is deterministic: one successor per "
            "decision); also with iterator input")
    # baseline: the same behaviour without cloning
    base_bad = set()
    for m in fr.mismatches:
        rq = m["req"]
        if rq["clone_at"] < 0:
            base_bad.add((rq["p"], tuple(rq["inp"]), tuple(rq["script"]), rq["ctor"]))
    other = 0
    for m in fr.mismatches:
        rq = m["req"]
        if rq["clone_at"] < 0:
            other += 1
            continue
        if (rq["p"], tuple(rq["inp"]), tuple(rq["script"]), rq["ctor"]) in base_bad:
            other += 1     # the un-cloned run already differs: some other property's business
            continue
        prog = byid[rq["p"]]
        out.violations.append({
            "key": "prog=%s input=%s script=%s clone_at=%d sched=%s" % (
                prog.body().replace("\n", " ").replace("  ", " "), rq["inp"], rq["script"],
                rq["clone_at"], rq["sched"]),
            "desc": "program %d input %s: cloning after call %d (schedule %s) changed the stream of the original or of the clone" % (
                rq["p"], rq["inp"], rq["clone_at"], rq["sched"]),
            "payload": {"kind": "replay", "program": prog.to_json(), "src": prog.body(),
                        "input": rq["inp"], "script": rq["script"], "ctor": rq["ctor"],
                        "clone_at": rq["clone_at"], "sched": rq["sched"], "expected": rq["ev"],
                        "actual": m["actual"]},
        })
        if len(out.violations) > 100:
            break
    out.coverage["mismatches_outside_projection"] = other
    return out


def setup():
    """Warm the cargo target directory (dependencies, lexgen with hooks) and check the tools."""
    import subprocess
    from pipeline import build_family
    progs = F.fixed_mm(1)[:1]
    ws, batches, failures = build_family("setup", progs)
    if failures:
        raise ToolError("setup: the smoke-test lexer failed to build: %s" % failures)
    cp = subprocess.run(["java", "-version"], capture_output=True, text=True)
    if cp.returncode != 0:
        raise ToolError("java not available")


CHECKS = {
    "C01": check_C01,
    "C03": check_C03,
    "C04": check_C04,
    "C05": check_C05,
    "C06": check_C06,
    "C07": check_C07,
    "C08": check_C08,
    "C09": check_C09,
    "C10": check_C10,
    "C14": check_C14,
    "C15": check_C15,
}

"""Per-property checks. Each returns an Outcome; `check` turns it into exit code, VIOLATION /
KNOWN-FINDING lines and the evidence file."""

import json
import os
import time

import families as F
from common import (BUILD, ToolError, load_known_findings, log, write_evidence, write_replay)
from pipeline import replay_family
from progs import Program


SEED = 1   # set by ./check from --seed / VERIF_SEED

# event kinds that must occur in the enumerated specification behaviours of a check
NEEDS = {"C01": ("A", "T", "I"), "C03": ("A", "T"), "C04": ("A", "T", "I"), "C05": ("T", "I", "N"),
         "C06": ("A", "T", "I"), "C07": ("I", "C", "T"), "C08": ("I", "after_error"), "C10": ("A", "T", "C")}


from common import REPO as REPO_

# Sources of /repo that have no crate boundary are included by path into the harness binaries.
RM_MAIN = """#[allow(dead_code)]
#[path = "%s/crates/lexgen/src/range_map.rs"]
mod range_map;
include!("%s/src/main_rangemap.rs");
"""
CRG_MAIN = """#[allow(dead_code)]
#[path = "%s/crates/char_range_gen/src/main.rs"]
mod crg;
include!("%s/src/%s");
"""


class Outcome:
    def __init__(self, pid, level="model_checking"):
        self.pid = pid
        self.level = level
        self.violations = []     # dicts: key, desc, payload
        self.coverage = {}
        self.assumptions = []
        self.notes = []


# ---------------------------------------------------------------------------------------------
# Observation projections (DESIGN 2.2): a check judges only its own property.
# ---------------------------------------------------------------------------------------------

def b(loc):
    return loc[2]


def proj_tokens(evs, stop_at_invalid=True, with_errors_loc=False):
    """(rule, lexeme byte span) of every action invocation and token; error kinds."""
    out = []
    for e in evs:
        k = e["k"]
        if k == "A":
            out.append(("A", e["r"], b(e["ms"]), b(e["me"])))
        elif k == "T":
            out.append(("T", e["r"], b(e["s"]), b(e["e"])))
        elif k == "I":
            out.append(("I", b(e["at"])) if with_errors_loc else ("I",))
            if stop_at_invalid:
                break
        elif k == "C":
            out.append(("C", e["r"], b(e["at"])) if with_errors_loc else ("C", e["r"]))
        elif k == "N":
            out.append(("N",))
        elif k in "PH":
            out.append((k,))
            break
    return out


def first_divergence(exp, act):
    n = min(len(exp), len(act))
    for i in range(n):
        if exp[i] != act[i]:
            return i
    return n if len(exp) != len(act) else -1


def strip_lx(evs):
    out = []
    for e in evs:
        e = dict(e)
        e.pop("lx", None)
        out.append(e)
    return out


def project_pair(proj, exp, act, prog, inp=None):
    """proj is either a function of one event list, or (marked with .pair) a function of
    (expected, actual, program[, input]) returning both projections."""
    if getattr(proj, "pair", False) == 2:
        return proj(exp, act, prog, inp)
    if getattr(proj, "pair", False):
        return proj(exp, act, prog)
    return proj(exp), proj(act)


def replay_violations(out, fr, proj, byid, what, max_report=5):
    """Turn mismatches whose projection differs into violations; count the others."""
    other = 0
    seen_progs = set()
    for m in fr.mismatches:
        req = m["req"]
        exp = req["ev"]
        act = strip_lx(m["actual"])
        pe, pa = project_pair(proj, exp, act, byid[req["p"]], req["inp"])
        if pe == pa:
            other += 1
            continue
        prog = byid[req["p"]]
        key = "prog=%s input=%s script=%s ctor=%d" % (
            prog.body().replace("\n", " ").replace("  ", " "), req["inp"], req["script"], req["ctor"])
        if len(out.violations) < 200:
            out.violations.append({
                "key": key,
                "desc": "%s: program %d input %s: expected %s, real lexer gave %s" % (
                    what, req["p"], req["inp"], pe[:8], pa[:8]),
                "payload": {
                    "kind": "replay", "program": prog.to_json(), "src": prog.body(),
                    "input": req["inp"], "script": req["script"], "ctor": req["ctor"],
                    "clone_at": req["clone_at"], "sched": req["sched"],
                    "expected": exp, "actual": act,
                    "first_divergence": first_divergence(pe, pa),
                },
            })
    return other


def base_coverage(fr, rule):
    tlc = fr.tlc
    return {
        "states": tlc.distinct,
        "transitions": tlc.states,
        "traces_validated_against_impl": fr.ok_runs,
        "programs": fr.programs,
        "behaviours_enumerated": fr.behaviours,
        "runs_replayed": fr.runs,
        "mismatching_runs": len(fr.mismatches),
        "build_failures": fr.build_failures[:10],
        "rule": rule,
        "samples": fr.samples,
        "tlc_cmd": tlc.cmd,
        "spec_events_enumerated": fr.event_coverage,
        "tlc_wall_s": round(tlc.wall, 1),
        "build_wall_s": round(fr.build_wall, 1),
        "run_wall_s": round(fr.run_wall, 2),
        # the programs are a (fixed + seeded) sample; for each of them the inputs up to the bound and
        # the decision histories are enumerated completely
        "exhaustive": False,
        "exhaustive_part": "per program: every input of length <= k over its alphabet and every decision history",
    }


def sizes(tier, quick, thorough):
    return thorough if tier == "thorough" else quick


def loc3(l):
    return tuple(l)


def proj_c04(evs):
    out = []
    for e in evs:
        k = e["k"]
        if k == "A":
            out.append(("A", e["r"], b(e["ms"]), b(e["me"]), e["pk"]))
        elif k == "T":
            out.append(("T", e["r"], b(e["s"]), b(e["e"])))
        elif k == "I":
            out.append(("I",))
            break
        elif k == "C":
            out.append(("C", e["r"]))
        elif k == "N":
            out.append(("N",))
        elif k in "PH":
            out.append((k,))
            break
    return out


def cut_after_nth_invalid(evs, m):
    """events up to and including the m-th InvalidToken (m >= 1); everything if there are fewer"""
    seen = 0
    for i, e in enumerate(evs):
        if e["k"] == "I":
            seen += 1
            if seen == m:
                return evs[:i + 1]
    return evs


def first_mid_input_invalid(exp):
    """1-based count of the first InvalidToken of the expected trace that is followed by anything
    but None items (an error in the middle of the input), or 0"""
    seen = 0
    for i, e in enumerate(exp):
        if e["k"] == "I":
            seen += 1
            if any(x["k"] in "ATIC" for x in exp[i + 1:]):
                return seen
    return 0


def proj_c05(exp, act, prog):
    """Everything with byte positions; compared up to the first InvalidToken raised in the middle
    of the input (what follows such an error is C08's business), but including everything that
    follows an error raised at the end of the input."""
    m = first_mid_input_invalid(exp)
    if m:
        exp, act = cut_after_nth_invalid(exp, m), cut_after_nth_invalid(act, m)
    f = lambda evs: proj_tokens(evs, stop_at_invalid=False, with_errors_loc=True)
    return f(exp), f(act)


proj_c05.pair = True


def intrinsic_rule_sets(evs, prog):
    """C03 on a recorded trace alone: track the active rule set from the trace's own history
    (Init at the start and after every InvalidToken; the rule set named by the decision an action
    took) and report the first action or token whose rule is not a rule of the active set."""
    set_of = {}
    menus = {}
    ridx = 0
    for si, (_, rs) in enumerate(prog.sets):
        for r in rs:
            set_of[ridx] = si
            menus[ridx] = r
            ridx += 1
    active = 0
    pending_switch = None
    for i, e in enumerate(evs):
        k = e["k"]
        if k == "A":
            if set_of.get(e["r"]) != active:
                return ("rule %d of set %d ran while set %d was active (event %d)" % (
                    e["r"], set_of.get(e["r"], -1), active, i))
            d = menus[e["r"]]["menu"][e["ch"] % len(menus[e["r"]]["menu"])]
            if d["sw"] >= 0:
                active = d["sw"]
        elif k == "T" and e["q"] == -1:
            if set_of.get(e["r"]) != active:
                return ("rule %d of set %d ran while set %d was active (event %d)" % (
                    e["r"], set_of.get(e["r"], -1), active, i))
        elif k == "I":
            active = 0
        elif k in "PH":
            break
    return "ok"


def proj_c03(exp, act, prog):
    pe = proj_tokens(exp) + [("active-rule-set", intrinsic_rule_sets(exp, prog))]
    pa = proj_tokens(act) + [("active-rule-set", intrinsic_rule_sets(act, prog))]
    return pe, pa


proj_c03.pair = True


def proj_c06(evs):
    """Every location triple and match text, up to the first InvalidToken (inclusive)."""
    out = []
    for e in evs:
        k = e["k"]
        if k == "A":
            out.append(("A", e["r"], loc3(e["ms"]), loc3(e["me"]), tuple(e.get("tx", ()))))
        elif k == "T":
            out.append(("T", e["r"], loc3(e["s"]), loc3(e["e"])))
        elif k == "I":
            out.append(("I", loc3(e["at"])))
            break
        elif k == "C":
            out.append(("C", e["r"], loc3(e["at"])))
        elif k == "N":
            out.append(("N",))
        elif k in "PH":
            out.append((k,))
            break
    return out


def utf8_len(c):
    return 1 if c < 0x80 else 2 if c < 0x800 else 3 if c < 0x10000 else 4


# the same facts as Chars!Width
WIDTH0 = {173, 768, 769, 4448, 8203, 8205, 65279}
WIDTH2 = {4352, 4447, 12288, 12354, 28450, 65281, 65313, 128512}


def loc_table(inp):
    """byte index -> (line, col) by scanning the input from its beginning (C06's definition), for
    the characters of the location alphabet"""
    tab = {0: (0, 0)}
    l = c = b_ = 0
    for ch in inp:
        b_ += utf8_len(ch)
        if ch == 10:
            l, c = l + 1, 0
        elif ch == 9:
            c += 4
        else:
            c += 0 if ch in WIDTH0 else 2 if ch in WIDTH2 else 1
        tab[b_] = (l, c)
    return tab


def c06_intrinsic(evs, inp):
    """C06 judged on a recorded trace alone (used for what follows an InvalidToken, where the
    reference position depends on C08): every location is on a character boundary and its
    line/column are those of a scan from the beginning; start <= end; match_() is the input slice;
    tokens and accumulated matches never start before the end of the previous item, and never
    at or before the location of a preceding InvalidToken (the failed attempt examined at least
    one character)."""
    tab = loc_table(inp)
    bytes_ = []
    for ch in inp:
        bytes_.append(utf8_len(ch))
    starts = {}
    off = 0
    for i, n in enumerate(bytes_):
        starts[off] = i
        off += n
    starts[off] = len(inp)
    last_end = 0
    after_invalid = -1

    def ok_loc(l):
        return l[2] in tab and tab[l[2]] == (l[0], l[1])

    for i, e in enumerate(evs):
        k = e["k"]
        if k in "AT":
            s_, e_ = (e["ms"], e["me"]) if k == "A" else (e["s"], e["e"])
            if not ok_loc(s_) or not ok_loc(e_):
                return "event %d: location %s/%s is not the line/column of a scan up to that byte" % (i, s_, e_)
            if s_[2] > e_[2]:
                return "event %d: start after end" % i
            if s_[2] < last_end:
                return "event %d: starts at byte %d before the end %d of the previous item" % (i, s_[2], last_end)
            if after_invalid >= 0 and s_[2] <= after_invalid and after_invalid < off:
                return "event %d: starts at byte %d, not after the InvalidToken at byte %d" % (i, s_[2], after_invalid)
            if k == "A" and "tx" in e and e["tx"] != inp[starts[s_[2]]:starts[e_[2]]]:
                return "event %d: match_() is not input[start..end]" % i
            if k == "T":
                last_end = e_[2]
                after_invalid = -1
        elif k in "IC":
            if not ok_loc(e["at"]):
                return "event %d: error location is not the line/column of a scan up to that byte" % i
            if e["at"][2] < last_end:
                return "event %d: error located before the end of the previous item" % i
            if k == "I":
                after_invalid = e["at"][2]
                last_end = e["at"][2]
        elif k in "PH":
            break
    return "ok"


def proj_c06_pair(exp, act, prog, inp):
    return (proj_c06(exp) + [("rest-of-trace", c06_intrinsic(exp, inp))],
            proj_c06(act) + [("rest-of-trace", c06_intrinsic(act, inp))])


proj_c06_pair.pair = 2


def proj_c07(evs):
    """Items: tokens by rule and byte span, errors in full (kind, payload, location)."""
    out = []
    for e in evs:
        k = e["k"]
        if k == "T":
            out.append(("T", e["r"], b(e["s"]), b(e["e"])))
        elif k == "I":
            out.append(("I", loc3(e["at"])))
            break
        elif k == "C":
            out.append(("C", e["r"], e["q"], loc3(e["at"])))
        elif k == "N":
            out.append(("N",))
        elif k in "PH":
            out.append((k,))
            break
    return out


def proj_c08(evs):
    """Everything that follows errors: the whole trace, InvalidToken reduced to its kind."""
    out = []
    for e in evs:
        k = e["k"]
        if k == "A":
            out.append(("A", e["r"], e["n"], b(e["ms"]), b(e["me"])))
        elif k == "T":
            out.append(("T", e["r"], b(e["s"]), b(e["e"])))
        elif k == "I":
            out.append(("I",))
        elif k == "C":
            out.append(("C", e["r"]))
        elif k == "N":
            out.append(("N",))
        elif k == "S":
            out.append(("S", e["n"]))
        elif k in "PH":
            out.append((k,))
            break
    return out


def proj_c10(evs):
    """The action protocol: every invocation in full, every token / custom error in full."""
    out = []
    for e in evs:
        k = e["k"]
        if k == "A":
            out.append(("A", e["r"], e["n"], loc3(e["ms"]), loc3(e["me"]), tuple(e.get("tx", ())),
                        e["pk"], e["ch"]))
        elif k == "T":
            out.append(("T", e["r"], e["q"], loc3(e["s"]), loc3(e["e"])))
        elif k == "I":
            out.append(("I",))
            break
        elif k == "C":
            out.append(("C", e["r"], e["q"]))
        elif k == "N":
            out.append(("N",))
        elif k == "S":
            out.append(("S", e["n"]))
        elif k in "PH":
            out.append((k,))
            break
    return out


def generic_replay_check(pid, tier, progs, proj, what, rule, ctors=(0,), clone_points=False,
                         workers=None, seed=None, rand_runs=None, rand_len=24, artifact=None, **kw):
    if seed is None:
        seed = SEED
    if rand_runs is None:
        # keep the number of recorded runs (each validated three times by TLC) bounded
        rand_runs = 60 if tier == "quick" else max(20, min(400, 40000 // max(1, len(progs))))
    out = Outcome(pid)
    # unusual but legal ways of writing the same definitions (families.add_quirks)
    progs = F.add_quirks(progs, seed)
    byid = {p.id: p for p in progs}
    fr = replay_family(pid, progs, ctors=ctors, clone_points=clone_points,
                       workers=workers or (8 if tier == "quick" else 14),
                       tlc_timeout=700 if tier == "quick" else 3300, **kw)
    other = replay_violations(out, fr, proj, byid, what)
    for f in fr.build_failures:
        out.notes.append("program %d dropped: %s (%s) -- judged by C12" % (
            f["program"], f["kind"], f["message"][:100]))
    # vacuity guard: the behaviours TLC enumerated must exercise what the property talks about
    need = NEEDS.get(pid, ())
    for k_ in need:
        if fr.event_coverage.get(k_, 0) == 0:
            raise ToolError("vacuous run: no %r event in any enumerated behaviour of %s" % (k_, pid))
    out.coverage = base_coverage(fr, rule + "; then the real lexers are run freely on seeded random "
                                 "inputs of up to %d characters with random decision scripts and every "
                                 "recorded run is validated by TLC against Trace_RefLexer.tla "
                                 "(deliberately corrupted recordings must be rejected)" % rand_len)
    out.coverage["mismatches_outside_projection"] = other
    out.coverage["dropped_programs"] = len(fr.build_failures)
    out.fr = fr
    out.byid = byid
    if fr.ws is not None and rand_runs:
        trace_part(out, pid, tier, progs, fr.ws, fr.batches, seed, rand_runs, rand_len, proj, what,
                   ctors=ctors)
    if artifact:
        artifact_part(out, pid, tier, progs, artifact)
        out.coverage["rule"] += ("; artifact validation: the automata the macro built for these "
                                 "programs are compared with the reference derivative automaton by TLC "
                                 "(Bisim.tla, all strings), the state renumbering tables are checked, and "
                                 "the recorded iterations of the backtrack analysis are validated against "
                                 "Backtrack.tla (monotone, terminates, flags = reachability)")
    return out


INPUTS_RULE = ("about 60% of the definitions are rewritten by families.add_quirks (a rule written twice, a "
               "shadowed rule, unused lets, a let used only as right context, a never-entered rule set, "
               "descending / overlapping bracket-set members, redundant parentheses); "
               "inputs: every string of length <= k over the program's alphabet (letters used by "
               "the rules plus one foreign letter); TLC enumerates every behaviour of RefLexer.tla "
               "(every decision history the rules' menus allow), each expected trace is replayed "
               "into the real generated lexer; ")


def check_C01(tier, seed):
    n, k = sizes(tier, (70, 4), (900, 5))
    progs = (F.fixed_mm(1) + F.random_mm(seed, n, 100, k=k)
             + F.random_general(seed + 1, n // 3, 5000, k=k, nsets=(1,), nrules=(2, 3, 4, 5), p_sugar=0.3,
                                menu_sizes=(1,), p_fal=0.0, named=False, depth=3)
             # "with its right context, if any, satisfied": some definitions with contexts too
             + F.random_general(seed + 2, n // 3, 8000, k=k, nsets=(1,), nrules=(2, 3, 4), p_sugar=0.2,
                                menu_sizes=(1,), p_fal=0.0, p_ctx=0.45, depth=2)
             # priority among rules that match the same lexeme through `$`
             + F.random_general(seed + 8, n // 3, 10000, k=k, nsets=(1,), nrules=(2, 3, 4), p_sugar=0.2,
                                menu_sizes=(1,), p_fal=0.0, p_eoi=0.5, depth=1, letters=(F.A, F.B),
                                sigma=(F.A, F.B, 120)))
    # "of the active rule set": the same shapes in a rule set other than Init, entered by a
    # switch (seed S-F10: rewind flags lost for every rule set but Init)
    from progs import chr_ as _chr, Program as _Program
    mm_a = F.random_mm(seed + 4, max(6, n // 4), 0, k=k - 1)
    fx = F.fixed_mm(0)
    mm_b = fx[:2] + fx[3:8] + F.random_mm(seed + 5, max(6, n // 4), 0, k=k - 1)
    for i, pb in enumerate(mm_b):
        pa = mm_a[i % len(mm_a)]
        init = [F.inf_rule(_chr(120), menu=[F.D(i % 2 == 0, 1, 1 if i % 3 else 0)])] + pa.sets[0][1]
        back = [F.inf_rule(_chr(120), menu=[F.D(False, 0, 1)])] if i % 2 else []
        sig = sorted(set(list(pa.sigma) + list(pb.sigma) + [120]))
        if len(sig) > 5:
            continue
        q = _Program(12000 + i, [("Init", init), ("S1", pb.sets[0][1] + back)], sigma=sig, k=k)
        if q.well_formed():
            progs.append(q)
    progs += F.join_templates(seed + 6, max(6, n // 4), 14000, k=k, nsets=(2,), p_eoi=0.0)
    progs += F.realistic_family(seed + 7, sizes(tier, 10, 120), 16000, k=3)
    import random
    rnd = random.Random(seed)
    for p in progs:
        if 5000 <= p.id < 8000:
            # actions that return, continue (accumulating) or skip: fixed per rule
            for r in p.rules():
                if r["kind"] == "inf":
                    r["menu"] = [rnd.choice([F.D(False, -1, 1), F.D(False, -1, 1), F.D(False, -1, 0),
                                             F.D(True, -1, 0)])]
    return generic_replay_check(
        "C01", tier, progs, proj_tokens,
        "token sequence differs from the maximal-munch reference",
        "programs: 10 fixed maximal-munch shapes (the property's own examples, issue 16, cycles and "
        "joins) + seeded random 2-6 rule single-rule-set definitions with and without `rule` "
        "blocks + the same shapes in a second rule set entered by a switch + join templates over "
        "two rule sets + families.realistic_family (keywords/identifiers/numbers/operators/sign "
        "with context/comments/strings as rule sets); " + INPUTS_RULE + "compared: (rule, lexeme byte span) of every action and token",
        artifact="accepting rules / rewind flags of the compiled automaton are wrong")


def check_C03(tier, seed):
    n, k = sizes(tier, (60, 3), (700, 4))
    progs = F.random_general(seed, n, 100, k=k, nsets=(2, 2, 3, 3, 4), nrules=(0, 1, 2, 2, 3),
                             menu_sizes=(1, 2, 2, 3), p_fal=0.2)
    progs += F.realistic_family(seed + 7, sizes(tier, 10, 120), 16000, k=3)
    return generic_replay_check(
        "C03", tier, progs, proj_c03,
        "a rule of a rule set that is not active ran (or the wrong rule set was entered)",
        "programs: seeded random definitions with 2-4 rule sets (empty ones included), every rule "
        "with a menu of 1-3 decisions among continue/return x reset x switch-to-any-rule-set, plus "
        "families.realistic_family (strings and block comments as rule sets); "
        + INPUTS_RULE + "compared: (rule, lexeme span) of every action and token up to the first "
        "InvalidToken, and over the whole trace that every rule that ran belongs to the rule set "
        "that the trace's own switch decisions / failures made active",
        artifact="a rule set's entry state does not lead to that rule set's automaton")


def check_C04(tier, seed):
    n, k = sizes(tier, (60, 4), (700, 5))
    progs = F.random_general(seed, n, 100, k=k, nsets=(1, 1, 2), nrules=(2, 3, 3, 4), p_ctx=0.55,
                             p_eoi=0.15, menu_sizes=(1,), p_fal=0.0, p_sugar=0.2, allow_switch=False)
    # context-guarded class rules in front of per-character rules that leave the same state
    # (seed S-F14: characters grouped into one arm keep only the first character's fallback chain)
    progs += F.arm_family(seed + 3, sizes(tier, 50, 400), 20000, k=3, p_ctx=0.45, p_bare=0.6)
    for p in progs:
        for r in p.rules():
            if r["kind"] == "inf":
                r["menu"] = [F.D(False, -1, 1)]
    # contexts in rule sets other than Init, entered by switches (menus kept as drawn)
    progs += F.random_general(seed + 5, sizes(tier, 30, 300), 30000, k=k - 1, nsets=(2, 2, 3), nrules=(1, 2, 3),
                              p_ctx=0.5, p_eoi=0.1, menu_sizes=(1, 1, 2), p_fal=0.1, p_sugar=0.2)
    return generic_replay_check(
        "C04", tier, progs, proj_c04,
        "a rule with a right context matched/was skipped wrongly, or the context was consumed",
        "programs: seeded random definitions in which about half of the rules carry a right context "
        "(literals, sets, repetition, `$`, nullable contexts) in any priority position, plus "
        "families.arm_family with contexts (context-guarded class rules in front of overlapping "
        "per-character / range / `_` rules that leave the same state) and definitions with 2-3 rule "
        "sets whose rules switch, continue and carry contexts; "
        + INPUTS_RULE + "compared: (rule, lexeme span, next character seen by the action) of every "
        "action and token up to the first InvalidToken",
        artifact="a right-context automaton or a context-guarded accepting state is wrong")


def check_C05(tier, seed):
    n, k = sizes(tier, (60, 4), (700, 5))
    progs = (F.random_general(seed, n // 2, 100, k=k, nsets=(1, 2, 2, 3), nrules=(1, 2, 2, 3), p_eoi=0.4,
                              menu_sizes=(1, 2), p_fal=0.2, letters=(F.A, F.B), sigma=(F.A, F.B, 120))
             + F.random_general(seed + 1, n // 2, 3000, k=k, nsets=(1,), nrules=(1, 2, 3), p_eoi=0.5,
                                menu_sizes=(1, 2), p_fal=0.0, named=False, letters=(F.A, F.B),
                                sigma=(F.A, F.B, 120))
             + F.join_templates(seed + 2, n // 2, 6000, k=k, p_eoi=0.8))
    progs += F.realistic_family(seed + 7, sizes(tier, 10, 120), 16000, k=3)
    return generic_replay_check(
        "C05", tier, progs, proj_c05,
        "end-of-input protocol violated ($ rule, None/InvalidToken at the end, fused stream)",
        "programs: seeded random definitions over {a,b} with `$`-tailed rules in Init and in other "
        "rule sets (40-50% of rules), with and without `rule` blocks, plus families.realistic_family "
        "(unterminated strings / comments at end of input); " + INPUTS_RULE +
        "the input therefore ends at every point (inside a lexeme, after a match, after a rewind, "
        "in any rule set); compared: every action and item with byte positions up to the first "
        "InvalidToken, and four further next() calls after the first None")


LOC_SIGMA = (97, 10, 9, 27, 233, 769, 28450, 128512)
LOC_SIGMA2 = (0x7F, 0x80, 0x7FF, 0x800, 0xFFFF, 0x10000, 13, 10, 0x2028, 173)


def check_C06(tier, seed):
    n, k = sizes(tier, (40, 3), (300, 4))
    progs = F.random_general(seed, n, 100, k=k, nsets=(1,), nrules=(2, 3, 4), p_eoi=0.1,
                             menu_sizes=(1, 2), p_fal=0.1, letters=LOC_SIGMA,
                             sigma=LOC_SIGMA, depth=2)
    progs += F.join_templates(seed + 3, n // 3, 6000, k=k + 1, letters=(97, 10, 233, 28450), sigma=(97, 10, 233, 28450, 769),
                              p_eoi=0.2, nsets=(1, 2), p_ctx=0.3)
    # the UTF-8 length boundaries, carriage return and a line separator (none of them starts a line)
    progs += F.random_general(seed + 5, max(8, n // 2), 9000, k=k, nsets=(1,), nrules=(2, 3, 4), p_eoi=0.1,
                              menu_sizes=(1, 2), p_fal=0.1, letters=LOC_SIGMA2, sigma=LOC_SIGMA2, depth=2)
    return generic_replay_check(
        "C06", tier, progs, proj_c06_pair,
        "a location (line, column, byte index) or match text differs from the fold over the input",
        "programs: seeded random definitions over the location alphabet {a, newline, tab, ESC (a "
        "control character: no width of its own, counts 1), e-acute "
        "(2 bytes), combining acute (2 bytes, width 0), CJK (3 bytes, width 2), emoji (4 bytes, "
        "width 2)} whose rules overlap so that lexers rewind, and over {U+007F, U+0080, U+07FF, U+0800, "
        "U+FFFF, U+10000 (UTF-8 length boundaries), carriage return, U+2028, soft hyphen (width 0)}; " + INPUTS_RULE +
        "compared: all Loc triples of match_loc(), tokens and errors, and match_() text; every behaviour "
        "is replayed through `new` and through `new_from_iter` (locations must be exact for both)",
        ctors=(0, 2))


def check_C07(tier, seed):
    n, k = sizes(tier, (60, 3), (700, 4))
    progs = F.random_general(seed, n, 100, k=k, nsets=(1, 1, 2), nrules=(2, 3, 4), p_ctx=0.15,
                             menu_sizes=(1, 2, 3), p_fal=0.6, p_sugar=0.15)
    return generic_replay_check(
        "C07", tier, progs, proj_c07,
        "an error item differs (kind, payload or location), or an error was raised although a rule matches",
        "programs: seeded random definitions with 60% fallible (`=?`) rules whose menus include "
        "Err decisions with and without reset_match()/continue_ accumulation; " + INPUTS_RULE +
        "compared: every item; errors in full (kind, payload, line/col/byte)")


def check_C08(tier, seed):
    n, k = sizes(tier, (60, 4), (700, 5))
    progs = F.random_general(seed, n, 100, k=k, nsets=(2, 2, 3), nrules=(1, 2, 2, 3),
                             menu_sizes=(1, 2), p_fal=0.1, letters=(F.A, F.B), sigma=(F.A, F.B, 120))
    # rules with right contexts: a failed context in a state without transitions must not read on
    progs += F.random_general(seed + 5, n // 2, 3000, k=k, nsets=(1, 2), nrules=(1, 2, 3), p_ctx=0.6,
                              menu_sizes=(1, 2), p_fal=0.0, letters=(F.A, F.B), sigma=(F.A, F.B, 120),
                              depth=1)
    progs += F.join_templates(seed + 2, n // 2, 6000, k=k + 2, p_eoi=0.2, nsets=(2, 2, 3), p_ctx=0.3)
    # rule sets without rules, entered by a switch: every character fails there
    progs += F.random_general(seed + 7, max(8, n // 3), 9000, k=k, nsets=(2, 3), nrules=(0, 0, 1, 2),
                              menu_sizes=(1, 2), p_fal=0.1, letters=(F.A, F.B), sigma=(F.A, F.B, 120))
    return generic_replay_check(
        "C08", tier, progs, proj_c08,
        "after an InvalidToken the lexer did not resume right after the examined text, in Init, and stay there",
        "programs: seeded random multi-rule-set definitions over {a,b} (inputs also contain the "
        "unlexable letter x) with switch/continue/return menus, some with rule sets that have no "
        "rules; " + INPUTS_RULE +
        "compared: the whole trace after every InvalidToken (actions with user-state counter, "
        "tokens, further errors, final user state)")


def check_C10(tier, seed):
    n, k = sizes(tier, (60, 3), (700, 4))
    progs = (F.random_general(seed, n, 100, k=k, nsets=(1, 2, 2), nrules=(2, 3, 4),
                              menu_sizes=(2, 3, 3), p_fal=0.4, p_sugar=0.3))
    progs += F.realistic_family(seed + 7, sizes(tier, 10, 120), 16000, k=3)
    return generic_replay_check(
        "C10", tier, progs, proj_c10,
        "the semantic-action protocol was violated (invocation, match text/loc, peek, token span, sugar)",
        "programs: seeded random definitions mixing `re,` / `re = t` / `=>` / `=?` rules, every "
        "non-sugar rule with a menu of 2-3 decisions (continue/return/Err x reset_match x switch), "
        "plus families.realistic_family (accumulating string / comment rule sets); "
        + INPUTS_RULE + "compared: every action invocation in full (rule, user-state counter, "
        "match_loc, match_ text, peek, decision) and every token / custom error in full")


# ---------------------------------------------------------------------------------------------
# Implementation -> specification on random long inputs (trace validation by TLC)
# ---------------------------------------------------------------------------------------------

def scripted_expected(tag, prog, inp, script):
    """Expected behaviour of RefLexer for one input and the decisions the real run was offered."""
    import copy
    from pipeline import tlc_expected
    q = copy.copy(prog)
    q.inputs = [list(inp)]
    q.guides = [list(script)]
    res = tlc_expected(tag + "_exp", [q], workers=2, timeout=300)
    if not res.ok:
        raise ToolError("TLC failed computing the expected behaviour: %s" % res.error)
    rules = prog.rules()
    for rp in res.tagged.get("REPLAY", []):
        ok = True
        j = 0
        for e in rp["ev"]:
            if e["k"] == "A":
                want = (script[j] if j < len(script) else 0) % len(rules[e["r"]]["menu"])
                if e["ch"] != want:
                    ok = False
                    break
                j += 1
        if ok:
            return rp["ev"]
    raise ToolError("no specification behaviour follows the offered script")


def random_inputs(rnd, prog, n_runs, maxlen, extra=()):
    reqs = []
    sig = list(prog.sigma)
    from progs import sample_regex, KNOWN_CHARS
    rules_ = list(prog.rules())
    env_ = prog.envmap()
    bi_ = getattr(prog, "bi", None)
    # definitions whose built-in tables are given to the specification as their ASCII restriction
    # (families.ASCII_BI) are only ever run on ASCII input
    known_ = [c for c in KNOWN_CHARS if c < 128] if getattr(prog, "ascii_only", False) else None
    for t in range(n_runs):
        r = rnd.random()
        if r < 0.05:
            inp = []
        elif r < 0.15:
            inp = [rnd.choice(sig)] * rnd.randrange(1, maxlen)
        elif r < 0.6 and rules_:
            # lexemes of the rules (and their context), some cut short or with a wrong
            # character, one after the other: reaches the deep states of long rules
            inp = []
            for _ in range(rnd.choice([1, 2, 3, 4, 6])):
                rl = rnd.choice(rules_)
                frag = sample_regex(rl["re"], env_, rnd, sig, bi_, known_chars=known_)
                if rl.get("ctx") is not None and rnd.random() < 0.5:
                    frag = frag + sample_regex(rl["ctx"], env_, rnd, sig, bi_, known_chars=known_)
                q = rnd.random()
                if q < 0.2 and frag:
                    frag = frag[:-1]
                elif q < 0.3:
                    frag = frag + [rnd.choice(sig)]
                elif q < 0.4 and frag:
                    frag[rnd.randrange(len(frag))] = rnd.choice(sig)
                inp += frag
            inp = inp[:maxlen]
        else:
            n = rnd.randrange(1, maxlen)
            # biased towards the program's own letters, with a few foreign characters
            inp = [rnd.choice(sig) for _ in range(n)]
        script = [rnd.randrange(6) for _ in range(len(inp) + 2)]
        reqs.append({"p": prog.id, "inp": inp, "script": script, "ctor": 0, "clone_at": -1,
                     "sched": []})
    for inp in extra:
        reqs.append({"p": prog.id, "inp": list(inp), "script": [], "ctor": 0, "clone_at": -1,
                     "sched": [], "notx": True})
    return reqs


def corrupt(run, rnd):
    """A deliberately wrong copy of a recorded run (must be rejected: binding self-test)."""
    import copy
    r = copy.deepcopy(run)
    evs = r["ev"]
    cands = [i for i, e in enumerate(evs) if e["k"] in ("T", "A", "I", "C")]
    if not cands:
        evs.insert(0, {"k": "I", "at": [0, 0, 0]})
        return r
    i = rnd.choice(cands)
    e = evs[i]
    if e["k"] == "T":
        e["e"] = [e["e"][0], e["e"][1] + 1, e["e"][2] + 1]
    elif e["k"] == "A":
        e["r"] = e["r"] + 1
    else:
        e["at"] = [e["at"][0], e["at"][1] + 1, e["at"][2] + 1]
    return r


def fine_part(out, pid, tier, byid, reqs, fine_runs, proj, what, max_leads=40, ws=None):
    """Fine-grained recordings (one event per lexgen_util operation, hook H4) against LexUtil.tla.
    A rejected recording or a violated protocol invariant is a LEAD: the harness searches for a
    witness (the consumed prefix followed by every short continuation) on which the observable
    behaviour differs from RefLexer; only such a witness is reported."""
    from pipeline import validate_fine
    rnd_c = __import__("random").Random(len(fine_runs))
    # binding self-test: corrupted fine recordings must be rejected
    import copy
    canaries = []
    for r in rnd_c.sample(fine_runs, min(10, len(fine_runs))):
        c = copy.deepcopy(r)
        evs = [k for k, e in enumerate(c["fine"]) if e["op"] == "N" and e["c"] >= 0]
        if not evs:
            continue
        e = c["fine"][rnd_c.choice(evs)]
        e["me"] = [e["me"][0], e["me"][1] + 1, e["me"][2]]
        c["i"] = -1 - len(canaries)
        canaries.append(c)
    tlc, ok, rej = validate_fine(pid, fine_runs + canaries, workers=8 if tier == "quick" else 14,
                                 timeout=1500 if tier == "quick" else 5000)
    for c in canaries:
        if c["i"] in ok:
            raise ToolError("LexUtil.tla accepted a deliberately corrupted fine-grained recording")
    leads = []
    mach_rej = {}
    mach_n = 0
    mtlc = None
    if ws is not None:
        # the same recordings against the generated-code machine over the real automaton
        from pipeline import validate_machine
        pairs = []
        have = set()
        for p_ in {r["p"] for r in fine_runs}:
            dump = ws.dump(byid[p_].lexer_name())
            if dump is not None and "renumber" in dump:
                pairs.append((byid[p_].to_json(), dump))
                have.add(p_)
        mruns = [dict(r, script=reqs[r["i"]]["script"]) for r in fine_runs if r["p"] in have]
        if mruns:
            mtlc, mok, mach_rej = validate_machine(pid, pairs, mruns, workers=8 if tier == "quick" else 14,
                                                   timeout=1500 if tier == "quick" else 5000)
            mach_n = len(mruns)
            lost = [r for r in mruns if r["i"] not in mok and r["i"] not in mach_rej]
            if lost:
                raise ToolError("Machine.tla neither accepted nor rejected %d recordings" % len(lost))
    for r in fine_runs:
        if r["i"] in mach_rej and r["i"] not in rej and ok.get(r["i"]) is None:
            info = mach_rej[r["i"]]
            leads.append((r, "event %d (%s) is not what the generated-code machine (Machine.tla, control point %s of state %s) does next" % (
                info["at"], info["op"], info["pc"], info["q"]), info["consumed"]))
    for r in fine_runs:
        if r["i"] in rej:
            info = rej[r["i"]]
            leads.append((r, "operation %s at event %d is not an action of LexUtil.tla" % (info["op"], info["at"]), info["consumed"]))
        elif ok.get(r["i"]) is not None:
            ld = ok[r["i"]]
            leads.append((r, "protocol invariant %s violated at event %d" % (ld["inv"], ld["at"]), ld["consumed"]))
    n_wit = 0
    # one witness search for all leads: per program (first few leads each) the consumed prefix
    # followed by every continuation of up to 3 characters, plus the recorded input itself
    import copy as _c
    per_prog = {}
    for r, why, consumed in leads:
        per_prog.setdefault(r["p"], [])
        if len(per_prog[r["p"]]) < 3:
            per_prog[r["p"]].append((r, why, consumed))
    chosen = list(per_prog.items())[:max_leads]
    wprogs = []
    whys = {}
    for pid_, lst in chosen:
        prog = byid[pid_]
        sig = prog.sigma
        exts = [[]]
        layer = [[]]
        for _ in range(3):
            layer = [e + [c] for e in layer for c in sig]
            exts += layer
        uniq = []
        guides = []
        for r, why, consumed in lst:
            base = r["inp"][:max(consumed, 0)]
            script = reqs[r["i"]]["script"]
            for x in [r["inp"]] + [base + e for e in exts]:
                if x not in uniq:
                    uniq.append(x)
                    # the decisions the recorded run was offered, then default decisions
                    guides.append(list(script) + [0] * 8)
        q = _c.copy(prog)
        q.inputs = uniq
        q.guides = guides
        wprogs.append(q)
        whys[pid_] = lst[0][1]
    found_progs = set()
    if wprogs:
        try:
            fr = replay_family(pid + "_witness", wprogs, workers=8, tlc_timeout=900)
        except ToolError as ex:
            out.notes.append("witness search failed: %s" % str(ex)[:200])
            fr = None
        if fr is not None:
            for m in fr.mismatches:
                prog = byid[m["req"]["p"]]
                if prog.id in found_progs:
                    continue
                pe, pa = project_pair(proj, m["req"]["ev"], strip_lx(m["actual"]), prog, m["req"]["inp"])
                if pe != pa:
                    found_progs.add(prog.id)
                    n_wit += 1
                    out.violations.append({
                        "key": "prog=%s input=%s script=%s ctor=0" % (
                            prog.body().replace("\n", " ").replace("  ", " "), m["req"]["inp"], m["req"]["script"]),
                        "desc": "%s (lead: %s; witness found by extending the consumed prefix): program %d input %s: expected %s, real lexer gave %s" % (
                            what, whys[prog.id], prog.id, m["req"]["inp"], pe[:8], pa[:8]),
                        "payload": {"kind": "replay", "program": prog.to_json(), "src": prog.body(),
                                    "input": m["req"]["inp"], "script": m["req"]["script"], "ctor": 0,
                                    "clone_at": -1, "sched": [], "expected": m["req"]["ev"],
                                    "actual": strip_lx(m["actual"]), "lead": whys[prog.id]}})
    n_note = 0
    for pid_, lst in chosen:
        if pid_ not in found_progs and n_note < 5:
            n_note += 1
            out.notes.append("LEAD without observable witness: program %d input %s: %s" % (
                pid_, lst[0][0]["inp"][:20], lst[0][1]))
    cov = out.coverage
    cov["fine_recordings_validated"] = len(fine_runs)
    cov["fine_recordings_rejected"] = len([r for r in fine_runs if r["i"] in rej])
    cov["fine_protocol_leads"] = len(leads)
    cov["fine_leads_with_witness"] = n_wit
    cov["fine_states"] = tlc.distinct
    cov["states"] = cov.get("states", 0) + tlc.distinct
    cov["transitions"] = cov.get("transitions", 0) + tlc.states
    if mtlc is not None:
        cov["machine_recordings_validated"] = mach_n
        cov["machine_recordings_rejected"] = len(mach_rej)
        cov["machine_states"] = mtlc.distinct
        cov["states"] += mtlc.distinct
        cov["transitions"] += mtlc.states


def trace_part(out, pid, tier, progs, ws, batches, seed, n_runs, maxlen, proj, what,
               ctors=(0,), extra_inputs=(), max_validate_len=80):
    """Run the real lexers freely on random inputs, validate every recorded run with TLC against
    Trace_RefLexer; for rejected runs compute the expected behaviour and judge by projection."""
    import random
    from pipeline import run_requests, validate_traces
    rnd = random.Random(seed * 7919 + 13)
    byid = {p.id: p for p in progs}
    live = {p.id for b_ in batches for p in b_}
    reqs = []
    extra_budget = [4000000]
    for p in progs:
        if p.id not in live:
            continue
        # long extra inputs only while the total stays within a budget (every recorded event is
        # kept in memory: 100000-character inputs for 700 programs would need > 50 GB)
        ex = extra_inputs
        cost = sum(len(x) for x in ex)
        if cost > extra_budget[0]:
            ex = [x for x in ex if len(x) <= 2000]
        else:
            extra_budget[0] -= cost
        rs = random_inputs(rnd, p, n_runs, maxlen, ex)
        for r in rs:
            r["ctor"] = rnd.choice(list(ctors))
        reqs.extend(rs)
    # fine-grained recording (one event per library operation) for a bounded number of runs:
    # each recording is carried through two TLC trace validations
    cand = [r for r in reqs if len(r["inp"]) <= max_validate_len]
    rnd.shuffle(cand)
    budget = 72000      # characters: the two fine-grained validations are superlinear in the length
    for r in cand[:6000]:
        budget -= len(r["inp"]) + 1
        if budget < 0:
            break
        r["fine"] = True
    results = run_requests(ws, batches, reqs, pid)
    runs = []
    fine_runs = []
    for i, (rq, rs) in enumerate(zip(reqs, results)):
        if rs is None:
            continue
        runs.append({"i": i, "p": rq["p"], "inp": rq["inp"], "ev": rs["ev"]})
        if "fine" in rs:
            fine_runs.append({"i": i, "p": rq["p"], "inp": rq["inp"], "fine": rs["fine"]})
    tovalidate = [r for r in runs if len(r["inp"]) <= max_validate_len]
    canaries = []
    for r in rnd.sample(tovalidate, min(20, len(tovalidate))):
        c = corrupt(r, rnd)
        c["i"] = -1 - len(canaries)
        canaries.append(c)
    tlc, accepted = validate_traces(pid, progs, tovalidate + canaries,
                                    workers=8 if tier == "quick" else 14,
                                    timeout=1500 if tier == "quick" else 5000)
    bad_canaries = [c for c in canaries if c["i"] in accepted]
    if bad_canaries:
        raise ToolError("trace validation accepted a deliberately corrupted recording: %s"
                        % json.dumps(bad_canaries[0])[:500])
    rejected = [r for r in tovalidate if r["i"] not in accepted]
    other = 0
    for r in rejected[:40]:
        rq = reqs[r["i"]]
        prog = byid[r["p"]]
        exp = scripted_expected(pid, prog, r["inp"], rq["script"])
        act = strip_lx(r["ev"])
        if rq["ctor"] >= 2:
            exp = [{k: v for k, v in e.items() if k != "tx"} for e in exp]
        pe, pa = project_pair(proj, exp, act, prog, r["inp"])
        if pe == pa:
            other += 1
            continue
        out.violations.append({
            "key": "prog=%s input=%s script=%s ctor=%d" % (
                prog.body().replace("\n", " ").replace("  ", " "), r["inp"], rq["script"], rq["ctor"]),
            "desc": "%s (recorded run rejected by Trace_RefLexer): program %d input %s: expected %s, real lexer gave %s" % (
                what, r["p"], r["inp"][:30], pe[:8], pa[:8]),
            "payload": {"kind": "replay", "program": prog.to_json(), "src": prog.body(),
                        "input": r["inp"], "script": rq["script"], "ctor": rq["ctor"],
                        "clone_at": -1, "sched": [], "expected": exp, "actual": act,
                        "first_divergence": first_divergence(pe, pa)},
        })
    if fine_runs:
        fine_part(out, pid, tier, byid, reqs, fine_runs, proj, what, ws=ws)
    cov = out.coverage
    cov["random_runs_recorded"] = len(runs)
    cov["random_runs_validated_by_tlc"] = len(tovalidate)
    cov["random_runs_accepted"] = len(tovalidate) - len(rejected)
    cov["random_runs_rejected"] = len(rejected)
    cov["random_rejected_outside_projection"] = other
    cov["corrupted_recordings_rejected"] = len(canaries)
    cov["trace_states"] = tlc.distinct
    cov["trace_tlc_wall_s"] = round(tlc.wall, 1)
    cov["traces_validated_against_impl"] = cov.get("traces_validated_against_impl", 0) + len(tovalidate) - len(rejected)
    cov["states"] = cov.get("states", 0) + tlc.distinct
    cov["transitions"] = cov.get("transitions", 0) + tlc.states
    if tovalidate:
        cov.setdefault("samples", []).append({"recorded_run": {k: tovalidate[0][k] for k in ("p", "inp", "ev")}})
    return runs, reqs


def c09_reason(evs, n_chars, free_running, total_bytes=None):
    """C09 judged on a recorded trace alone: no panic / hang, every item accounts for new input
    (items are in input order and never go back over characters an earlier item already
    accounted for), at most n+1 items and n+1 actions, None is reached."""
    items = 0
    acts = 0
    saw_none = False
    last_end = 0        # byte index up to which earlier items have accounted for the input
    err_at = None       # location of the error item just before, if any
    for e in evs:
        k = e["k"]
        if k == "P":
            return "panic: %s" % e.get("msg", "")[:200]
        if k == "H":
            return "a next() call did not return (watchdog)"
        if k == "A" and not saw_none:
            acts += 1
        if k in "TIC":
            if saw_none:
                return "an item was produced after None"
            items += 1
            # an InvalidToken raised before the end of the input consumes the offending character:
            # whatever item follows starts beyond the error's location
            start_ = e["s"][2] if k == "T" else e["at"][2]
            if err_at is not None and start_ <= err_at:
                return "the InvalidToken error located at byte %d accounted for no input: the next item starts at byte %d" % (
                    err_at, start_)
            err_at = e["at"][2] if (k == "I" and total_bytes is not None and e["at"][2] < total_bytes) else None
            if k == "T":
                if e["s"][2] < last_end or e["e"][2] < e["s"][2]:
                    return "token %s spans bytes %d..%d but the input up to byte %d was already accounted for" % (
                        e["r"], e["s"][2], e["e"][2], last_end)
                last_end = e["e"][2]
            else:
                if e["at"][2] < last_end:
                    return "error located at byte %d but the input up to byte %d was already accounted for" % (
                        e["at"][2], last_end)
                last_end = e["at"][2]
        if k == "N":
            saw_none = True
    if items > n_chars + 1:
        return "%d items before None for %d characters" % (items, n_chars)
    if acts > n_chars + 1:
        return "%d action invocations for %d characters" % (acts, n_chars)
    if free_running and not saw_none:
        return "no None within %d calls for %d characters" % (n_chars + 6, n_chars)
    return None


def check_C09(tier, seed):
    out = Outcome("C09")
    n, k = sizes(tier, (50, 3), (500, 4))
    progs = (F.random_general(seed, n, 100, k=k, nsets=(1, 2, 3), nrules=(0, 1, 2, 3, 4), p_ctx=0.2,
                              p_eoi=0.2, menu_sizes=(1, 2, 3), p_fal=0.3)
             + F.fixed_mm(5000) + F.join_templates(seed + 2, n // 3, 6000, k=k + 1, nsets=(1, 2), p_ctx=0.2))
    byid = {p.id: p for p in progs}
    fr = replay_family("C09", progs, workers=8 if tier == "quick" else 14,
                       tlc_timeout=700 if tier == "quick" else 3300)
    # liveness of the reference: every behaviour reaches the final None (under weak fairness)
    from pipeline import tlc_expected
    live_progs = progs[:sizes(tier, 12, 60)]
    import copy as _cp
    lp = []
    for q_ in live_progs:
        q2 = _cp.copy(q_)
        q2.k = min(q_.k, 3)
        lp.append(q2)
    live = tlc_expected("C09_live", lp, workers=8, timeout=1500, cfg="MC_RefLexer_live.cfg")
    if not live.ok:
        raise ToolError("RefLexer liveness (Terminates) failed: %s" % live.error)
    out.coverage = base_coverage(
        fr, "programs: seeded random definitions of every kind (several rule sets, empty rule sets, "
            "contexts, `$` rules, all decision menus) + the fixed maximal-munch shapes; part 1: every "
            "behaviour of RefLexer.tla for all inputs of length <= k replayed (TLC also checks the "
            "variant Progress and the bound Bounded on the specification); part 2: the real lexers "
            "run freely (through `new` or the iterator constructors, asking for size_hint() before every "
            "call as Iterator adaptors do; until None plus three calls, budget n+6 calls, panics caught, watchdog) on "
            "random inputs up to 60 characters, the empty input, runs of one repeated character and "
            "long inputs; each recording <= 80 characters is validated by TLC against "
            "Trace_RefLexer.tla; non-trivial = distinct (program, input, script)")

    def judge(desc_prefix, prog, req, actual, free):
        why = c09_reason(actual, len(req["inp"]), free, total_bytes=sum(utf8_len(c_) for c_ in req["inp"]))
        if why is None:
            return False
        out.violations.append({
            "key": "prog=%s input=%s script=%s" % (prog.body().replace("\n", " ").replace("  ", " "),
                                                   req["inp"][:50], req["script"][:50]),
            "desc": "%s program %d input %s (len %d): %s" % (desc_prefix, prog.id, req["inp"][:20],
                                                            len(req["inp"]), why),
            "payload": {"kind": "replay", "program": prog.to_json(), "src": prog.body(),
                        "input": req["inp"], "script": req["script"], "ctor": req.get("ctor", 0),
                        "clone_at": -1, "sched": [], "actual": actual[:200], "why": why},
        })
        return True

    other = 0
    for m in fr.mismatches:
        if not judge("replay:", byid[m["req"]["p"]], m["req"], strip_lx(m["actual"]), False):
            other += 1
    out.coverage["mismatches_outside_projection"] = other
    out.coverage["spec_liveness_states"] = live.distinct
    out.coverage["states"] += live.distinct
    out.coverage["transitions"] += live.states
    if fr.ws is not None:
        longn = 20000 if tier == "quick" else 100000
        extra = []
        runs, reqs = trace_part(out, "C09", tier, progs, fr.ws, fr.batches, seed,
                                40 if tier == "quick" else max(10, min(80, 16000 // max(1, len(progs)))),
                                60, lambda evs: [c09_reason(evs, 10 ** 9, False)],
                                "termination/progress/panic-freedom",
                                extra_inputs=[[c] * longn for c in (97, 120)] + [[120, 97] * 500],
                                ctors=(0, 0, 2, 3))
        n_long = 0
        for r in runs:
            rq = reqs[r["i"]]
            judge("free run:", byid[r["p"]], rq, strip_lx(r["ev"]), True)
            if len(r["inp"]) > 80:
                n_long += 1
        out.coverage["long_runs_checked_by_count_only"] = n_long
    for f in fr.build_failures:
        out.notes.append("program %d dropped: %s -- judged by C12" % (f["program"], f["kind"]))
    # de-duplicate violations found through both routes
    seen = set()
    uniq = []
    for v in out.violations:
        if v["key"] not in seen:
            seen.add(v["key"])
            uniq.append(v)
    out.violations = uniq
    return out


def check_C14(tier, seed):
    """The four constructors: every behaviour replayed through each; the four recorded streams
    must be the same stream (the reference stream serves as the common oracle)."""
    out = Outcome("C14")
    n, k = sizes(tier, (40, 3), (400, 4))
    progs = (F.random_general(seed, n, 100, k=k, nsets=(1, 2, 2), nrules=(1, 2, 3, 4), p_ctx=0.2,
                              p_eoi=0.2, menu_sizes=(1, 2), p_fal=0.2, sigma=(F.A, F.B, F.C, 233, 28450))
             + F.fixed_mm(5000)[:6] + F.builtin_family(7000, k=k)
             # rewinds over multi-byte / wide characters, newlines and tabs
             + F.join_templates(seed + 3, max(6, n // 3), 9000, k=k + 1, letters=(97, 10, 769, 28450),
                                sigma=(97, 10, 9, 233, 769, 28450), p_eoi=0.2, nsets=(1, 2))
             + F.random_general(seed + 4, max(6, n // 3), 11000, k=k, nsets=(1, 2), nrules=(2, 3, 4), p_ctx=0.2,
                                menu_sizes=(1, 2), p_fal=0.2, letters=(97, 10, 233, 769, 28450),
                                sigma=(97, 10, 9, 233, 769, 28450))
             # C06's family over the whole location alphabet
             + F.random_general(seed, n, 13000, k=3, nsets=(1,), nrules=(2, 3, 4), p_eoi=0.1,
                                menu_sizes=(1, 2), p_fal=0.1, letters=LOC_SIGMA, sigma=LOC_SIGMA, depth=2))
    byid = {p.id: p for p in progs}
    fr = replay_family("C14", progs, ctors=(0, 1, 2, 3), workers=8 if tier == "quick" else 14,
                       tlc_timeout=700 if tier == "quick" else 3300)
    out.coverage = base_coverage(
        fr, "programs: seeded random definitions (rewinding rules, contexts, `$`, several rule "
            "sets, multi-byte characters in the alphabet, and definitions whose letters are a, newline, "
            "e-acute, a zero-width combining accent and a CJK character so that lexers rewind over them); every behaviour of RefLexer.tla for all "
            "inputs <= k is replayed through new, new_with_state, new_from_iter and "
            "new_from_iter_with_state (iterator: a cloneable iterator over shared storage); the "
            "four recorded streams (without match_() text) must be identical; then random inputs "
            "up to 60 characters through a random constructor each, validated by TLC against "
            "Trace_RefLexer.tla")
    # group by behaviour
    actual = {}
    for m in fr.mismatches:
        rq = m["req"]
        actual[(rq["p"], tuple(rq["inp"]), tuple(rq["script"]), rq["ctor"])] = strip_lx(m["actual"])

    def notx(evs):
        return [{k_: v for k_, v in e.items() if k_ != "tx"} for e in evs]

    groups = {}
    for m in fr.mismatches:
        rq = m["req"]
        groups.setdefault((rq["p"], tuple(rq["inp"]), tuple(rq["script"])), rq)
    other = 0
    for key, rq in groups.items():
        streams = []
        for c in (0, 1, 2, 3):
            a = actual.get(key + (c,))
            streams.append(notx(a if a is not None else rq["ev"]))
        if all(s_ == streams[0] for s_ in streams):
            other += 1
            continue
        prog = byid[key[0]]
        dif = [c for c in (1, 2, 3) if streams[c] != streams[0]]
        out.violations.append({
            "key": "prog=%s input=%s script=%s" % (prog.body().replace("\n", " ").replace("  ", " "),
                                                   list(key[1]), list(key[2])),
            "desc": "constructors disagree: program %d input %s: constructor(s) %s give a different stream than `new`" % (
                key[0], list(key[1]), dif),
            "payload": {"kind": "replay", "program": prog.to_json(), "src": prog.body(),
                        "input": list(key[1]), "script": list(key[2]), "ctor": dif[0], "clone_at": -1,
                        "sched": [], "expected": rq["ev"], "streams": streams},
        })
    out.coverage["mismatches_outside_projection"] = other
    if fr.ws is not None:
        trace_part(out, "C14", tier, progs, fr.ws, fr.batches, seed,
                   30 if tier == "quick" else max(10, min(80, 16000 // max(1, len(progs)))), 60,
                   lambda evs: [{k_: v for k_, v in e.items() if k_ not in ("tx",)} for e in evs],
                   "stream of an iterator-built lexer differs from the specification",
                   ctors=(0, 1, 2, 3))
    return out


def check_C15(tier, seed):
    """Clone at every point: original and clone must both continue with the reference stream."""
    out = Outcome("C15")
    n, k = sizes(tier, (30, 3), (300, 4))
    progs = F.random_general(seed, n, 100, k=k, nsets=(1, 2, 2), nrules=(1, 2, 3), p_ctx=0.2,
                             p_eoi=0.2, menu_sizes=(1, 2), p_fal=0.25)
    progs += F.builtin_family(7000, k=k)
    byid = {p.id: p for p in progs}
    fr = replay_family("C15", progs, ctors=(0, 2), clone_points=True,
                       workers=8 if tier == "quick" else 14,
                       tlc_timeout=700 if tier == "quick" else 3300)
    out.coverage = base_coverage(
        fr, "programs: seeded random definitions with #[derive(Clone)] and a cloneable user state; "
            "for every behaviour of RefLexer.tla (all inputs <= k, all decision histories) and "
            "every clone point (before the first call, after every call including errors, "
            "switches and the final None) the real lexer is cloned and original and clone are "
            "advanced under three interleavings; both recorded suffix streams and both final user "
            "states must equal the specification's (which is deterministic: TLC's enumeration yields "
            "exactly one behaviour per (program, input, decision history), checked on every run); "
            "also with iterator input and with lexers that use two large built-in classes")
    out.coverage["spec_behaviours_unique_per_decision_history"] = getattr(fr, "deterministic_behaviours", 0)
    # baseline: the same behaviour without cloning
    base_bad = set()
    for m in fr.mismatches:
        rq = m["req"]
        if rq["clone_at"] < 0:
            base_bad.add((rq["p"], tuple(rq["inp"]), tuple(rq["script"]), rq["ctor"]))
    other = 0
    for m in fr.mismatches:
        rq = m["req"]
        if rq["clone_at"] < 0:
            other += 1
            continue
        if (rq["p"], tuple(rq["inp"]), tuple(rq["script"]), rq["ctor"]) in base_bad:
            other += 1     # the un-cloned run already differs: some other property's business
            continue
        prog = byid[rq["p"]]
        out.violations.append({
            "key": "prog=%s input=%s script=%s clone_at=%d sched=%s" % (
                prog.body().replace("\n", " ").replace("  ", " "), rq["inp"], rq["script"],
                rq["clone_at"], rq["sched"]),
            "desc": "program %d input %s: cloning after call %d (schedule %s) changed the stream of the original or of the clone" % (
                rq["p"], rq["inp"], rq["clone_at"], rq["sched"]),
            "payload": {"kind": "replay", "program": prog.to_json(), "src": prog.body(),
                        "input": rq["inp"], "script": rq["script"], "ctor": rq["ctor"],
                        "clone_at": rq["clone_at"], "sched": rq["sched"], "expected": rq["ev"],
                        "actual": m["actual"]},
        })
        if len(out.violations) > 100:
            break
    out.coverage["mismatches_outside_projection"] = other
    return out


# ---------------------------------------------------------------------------------------------
# C11: character-class algebra / range map
# ---------------------------------------------------------------------------------------------

def den_points(pieces, points):
    d = {}
    for c in points:
        vs = set()
        for r in pieces:
            if r["s"] <= c <= r["e"]:
                vs |= set(r["v"])
        d[c] = tuple(sorted(vs))
    return d


def well_formed(pieces):
    for r in pieces:
        if r["s"] > r["e"] or not r["v"]:
            return False
    for a, b_ in zip(pieces, pieces[1:]):
        if a["e"] >= b_["s"]:
            return False
    return True


def op_text(t):
    if t["k"] == "ins":
        return "insert(%d, %d, %s)" % (t["a"], t["b"], t["v"])
    name = {"insr": "insert_ranges", "rem": "remove_ranges"}[t["k"]]
    return "%s(%s)" % (name, [(r["s"], r["e"]) for r in t["m"]])


STABLE_BUILTINS = ["ascii", "ascii_alphabetic", "ascii_alphanumeric", "ascii_control", "ascii_digit",
                   "ascii_graphic", "ascii_hexdigit", "ascii_lowercase", "ascii_punctuation",
                   "ascii_uppercase", "ascii_whitespace", "control", "whitespace"]


def predicate_tables():
    """Maximal runs of the Rust predicates behind the built-in classes (imported oracle)."""
    from common import Workspace, run_parallel, BUILD, HARNESS
    ws = Workspace("PRED")
    d = os.path.join(ws.crate_dir("pred_tables"), "src")
    os.makedirs(d, exist_ok=True)
    with open(os.path.join(d, "generated.rs"), "w") as f:
        f.write("pub fn sweeps() -> Vec<(&'static str, fn() -> Vec<(u32, u32)>)> { vec![] }\n")
    ws.add_crate("pred_tables", "mod generated;\n" + CRG_MAIN % (REPO_, HARNESS, "main_builtin.rs"),
                 deps='serde_json = "1"\nunicode-xid = "0.2.2"\n')
    ok, err = ws.build()
    if not ok:
        raise ToolError("predicate table helper does not build: " + err[-800:])
    o = os.path.join(BUILD, "PRED", "pred.json")
    rcs = run_parallel([[ws.binary("pred_tables"), o]], timeout=600)
    if rcs[0] != 0:
        raise ToolError("predicate table helper failed")
    with open(o) as f:
        r = json.load(f)
    names = {n.lower(): n for n in BUILTINS}
    return {names[p_["name"].lower()]: p_["runs"] for p_ in r["predicates"]}


def class_family(seed, n, base_id, tables=None):
    """One-class lexers over the digits: `<class expression> = tk(0), _ = tk(1)`; with `tables`
    (built-in name -> ranges) also the built-in classes whose tables equal the predicates."""
    import random
    from progs import Gen, set_, chr_, any_, alt, diff, var, bi
    rnd = random.Random(seed)
    lo, hi = 48, 57
    # the edges of the scalar-value space: first and last scalar values and both sides of the
    # surrogate gap (U+D7FF and U+E000 are consecutive scalar values)
    EDGE = [0, 1, 2, 0xD7FD, 0xD7FE, 0xD7FF, 0xE000, 0xE001, 0xE002, 0x10FFFD, 0x10FFFE, 0x10FFFF]
    mode = {"edge": False}

    def pick(a_min=None):
        if mode["edge"]:
            xs = [x for x in EDGE if a_min is None or x >= a_min]
            return rnd.choice(xs)
        return rnd.randrange(lo if a_min is None else a_min, hi + 1)

    def atom():
        r = rnd.random()
        if r < 0.5:
            items = []
            for _ in range(rnd.choice([1, 2, 2, 3])):
                a = pick()
                b_ = pick(a)
                if rnd.random() < 0.3:
                    b_ = a
                items.append((a, b_))
            # no repeated single characters (that is C12's family)
            singles = [x for x in items if x[0] == x[1]]
            if len(singles) != len(set(singles)):
                items = list(dict.fromkeys(items))
            return set_(items)
        if r < 0.7:
            return chr_(pick())
        if r < 0.8:
            return any_()
        if tables is not None and r < 0.93 and not mode["edge"]:
            return bi(rnd.choice(STABLE_BUILTINS))
        a = pick()
        return set_([(a, pick(a))])

    def expr(d):
        if d == 0 or rnd.random() < 0.25:
            return atom()
        r = rnd.random()
        if r < 0.6:
            return diff(expr(d - 1), expr(d - 1))
        return alt(expr(d - 1), expr(d - 1))

    out = []
    tries = 0
    while len(out) < n and tries < 100 * n:
        tries += 1
        mode["edge"] = rnd.random() < 0.3
        e = expr(rnd.choice([1, 2, 2, 3]))
        env = []
        if rnd.random() < 0.3 and e["k"] in ("diff", "alt"):
            env = [("cv", e["a"], -1)]
            e = dict(e, a=var("cv"))
        rules = [F.simple_rule(e), F.simple_rule(any_())]
        pts = set()
        from progs import class_iv
        try:
            iv = class_iv(e, {n_: r for n_, r, _ in env}, tables)
        except Exception:
            continue
        if not iv:
            continue
        for a, b_ in iv:
            pts |= {a - 1, a, b_, b_ + 1}
        pts |= {47, 48, 57, 58}
        if mode["edge"]:
            pts |= set(EDGE)
        txt = json.dumps(e) + json.dumps([x[1] for x in env])
        used = [nm for nm in STABLE_BUILTINS if '"n": "%s"' % nm in txt] if tables else []
        for nm in used:
            for a, b_ in tables[nm]:
                pts |= {a - 1, a, b_, b_ + 1}
        pts = sorted(c for c in pts if 0 <= c <= 0x10FFFF and not (0xD800 <= c <= 0xDFFF))
        if len(pts) > 160:
            pts = sorted(rnd.sample(pts, 160))
        p = Program(base_id + len(out), [("Init", rules)], env=env, sigma=pts, k=1, named=False)
        if used:
            p.bi = {nm: tables[nm] for nm in used}
            p.bi["none"] = []
        if p.well_formed(tables):
            out.append(p)
    return out


def guard_size_family(seed, base_id):
    """Hand-written classes with 8..11 ranges (plus two single characters), i.e. just
    below and above the size at which code generation switches from a chain of range guards to a
    binary-search table (MAX_GUARD_SIZE = 9).  Each class A comes with a sibling B that has the
    same first and last character and the same number of pieces but differs in one character, and
    the two are used: A alone (terminal target), A before another character (kept target state),
    A then B in one rule, A as a rule and B as a right context, A and B in two rule sets -- so
    that tables or guards that are shared, cached or named by anything less than their contents
    show."""
    import random
    from progs import set_, chr_, cat, any_
    rnd = random.Random(seed * 31 + 5)
    out = []
    for n in (8, 9, 10, 11):
        c0 = 36
        items = []
        for i_ in range(n + 2):
            # n proper ranges (a one-character piece is a character transition, not a range) and
            # two single characters
            ln = 1 if i_ in (2, n) else rnd.choice([2, 2, 3])
            items.append((c0, c0 + ln - 1))
            c0 += ln + 2
        # the sibling: one interior range gains the character before it (same number of ranges)
        j = rnd.choice([i_ for i_ in range(1, n + 1) if items[i_][1] > items[i_][0]])
        lo, hi = items[j]
        sib = list(items)
        sib[j] = (lo - 1, hi)
        a_items, b_items = list(items), list(sib)
        rnd.shuffle(a_items)
        rnd.shuffle(b_items)
        A, B = set_(a_items), set_(b_items)
        pts = set()
        for a, b_ in items + sib:
            pts |= {a - 1, a, b_, b_ + 1}
        allp = sorted(pts)
        few = sorted(set(rnd.sample(allp, min(len(allp), 10)) + [lo - 1, lo, lo + 1, hi]))
        X = 120
        out.append(Program(base_id + len(out), [("Init", [F.simple_rule(A), F.simple_rule(any_())])],
                           sigma=allp, k=1, named=False))
        out.append(Program(base_id + len(out), [("Init", [F.simple_rule(cat(A, chr_(X))), F.simple_rule(A),
                                                         F.simple_rule(any_())])],
                           sigma=allp + [X], k=2, named=False))
        out.append(Program(base_id + len(out), [("Init", [F.simple_rule(cat(A, B)), F.simple_rule(any_())])],
                           sigma=few, k=2, named=False))
        out.append(Program(base_id + len(out), [("Init", [F.simple_rule(chr_(X), ctx=B), F.simple_rule(cat(A, chr_(X))),
                                                         F.simple_rule(chr_(X)), F.simple_rule(any_())])],
                           sigma=few + [X], k=3, named=False))
        out.append(Program(base_id + len(out), [
            ("Init", [F.inf_rule(cat(A, chr_(X)), menu=[F.D(False, 1, 1)]), F.simple_rule(any_())]),
            ("S1", [F.inf_rule(cat(B, chr_(X)), menu=[F.D(False, 0, 1)]), F.simple_rule(any_())])],
            sigma=few + [X], k=4))
    # bracket sets that list 10..20 single characters one by one (character arms, not ranges)
    from progs import plus
    for n in (10, 11, 13, 19, 20):
        singles = [(40 + 2 * i, 40 + 2 * i) for i in range(n)]
        rnd.shuffle(singles)
        S = set_(singles)
        pts = sorted({c_ + d for c_, _ in singles for d in (-1, 0, 1)})
        out.append(Program(base_id + len(out), [("Init", [F.simple_rule(plus(S)), F.simple_rule(any_())])],
                           sigma=pts, k=2 if n > 13 else 2, named=False))
        out.append(Program(base_id + len(out), [("Init", [F.simple_rule(cat(S, chr_(120))), F.simple_rule(S),
                                                         F.simple_rule(any_())])],
                           sigma=pts + [120], k=2, named=False))
    return [p for p in out if p.well_formed()]


def check_C11(tier, seed):
    from common import Workspace, run_tlc, run_parallel, BUILD, HARNESS
    out = Outcome("C11")
    t0 = time.time()
    maxpoint = 3 if tier == "quick" else 4
    # Part 1: TLC on RangeMap.tla: every reachable representation x every operation
    cfg = os.path.join(BUILD, "C11_rm.cfg")
    os.makedirs(BUILD, exist_ok=True)
    with open(cfg, "w") as f:
        f.write("CONSTANTS\n  MaxPoint = %d\n  Values = {1, 2}\nINIT Init\nNEXT Next\n"
                "INVARIANTS Inv StepCorrect PrintTransition\nCHECK_DEADLOCK FALSE\n" % maxpoint)
    covout = os.path.join(BUILD, "C11_rm_out.txt")
    tlc = run_tlc("RangeMap.tla", cfg, workers=12, timeout=3000, tag="C11_rm", heap="12g",
                  extra=("-coverage", "1"), keep_output=covout)
    if not tlc.ok:
        raise ToolError("TLC found an error in RangeMap.tla itself:\n" + str(tlc.error))
    # vacuity guard: every arm of the three loop models must have been evaluated
    import re as _re
    never = []
    total_expr = 0
    with open(covout) as f:
        for line in f:
            m = _re.match(r"^\s*\|*line (\d+), col \d+ to line \d+, col \d+ of module RangeMapOps: (\d+)", line)
            if m:
                total_expr += 1
                if m.group(2) == "0":
                    never.append(int(m.group(1)))
    if total_expr == 0:
        raise ToolError("no coverage information for RangeMapOps in the TLC output")
    if never:
        raise ToolError("vacuous run: expressions of the range-map loops never evaluated (RangeMapOps.tla lines %s)" % sorted(set(never))[:10])
    trs = tlc.tagged.get("TR", [])
    ws = Workspace("C11")
    ws.add_crate("c11_rangemap", RM_MAIN % (REPO_, HARNESS))
    ok, err = ws.build()
    if not ok:
        raise ToolError("range map harness does not build:\n" + err[-2000:])
    d = os.path.join(BUILD, "C11")
    tf = os.path.join(d, "transitions.ndjson")
    rf = os.path.join(d, "results.ndjson")
    with open(tf, "w") as f:
        for t in trs:
            f.write(json.dumps(t, separators=(",", ":")) + "\n")
    rcs = run_parallel([[ws.binary("c11_rangemap"), tf, rf]], timeout=1200)
    if rcs[0] != 0:
        raise ToolError("range map harness failed (rc=%s)" % rcs[0])
    points = list(range(0, maxpoint + 2))
    exact = 0
    drift = 0
    n_tr = 0
    with open(rf) as f:
        for line in f:
            r = json.loads(line)
            if r.get("done"):
                exact = r["exact"]
                n_tr = r["n"]
                continue
            t = trs[r["i"]]
            key = "range_map before=%s op=%s" % ([(x["s"], x["e"], x["v"]) for x in t["before"]], op_text(t))
            if "panic" in r:
                out.violations.append({"key": key, "desc": "RangeMap panicked: %s: %s" % (key, r["panic"][:100]),
                                       "payload": {"kind": "rangemap", "transition": t, "panic": r["panic"]}})
                continue
            act = r["actual"]
            if not well_formed(act):
                out.violations.append({"key": key, "desc": "malformed range map after %s: %s" % (key, [(x["s"], x["e"]) for x in act]),
                                       "payload": {"kind": "rangemap", "transition": t, "actual": act}})
            elif den_points(act, points) != den_points(t["after"], points):
                out.violations.append({"key": key, "desc": "wrong contents after %s: got %s expected %s" % (
                    key, [(x["s"], x["e"], x["v"]) for x in act], [(x["s"], x["e"], x["v"]) for x in t["after"]]),
                    "payload": {"kind": "rangemap", "transition": t, "actual": act}})
            else:
                drift += 1
    out.coverage = {
        "states": tlc.distinct, "transitions": tlc.states,
        "traces_validated_against_impl": exact + drift,
        "range_map_transitions_replayed": n_tr,
        "range_map_transitions_exact": exact,
        "range_map_transitions_same_meaning_other_split": drift,
        "loop_model_expressions_covered": total_expr,
        "loop_model_expressions_never_evaluated": len(never),
        "rule": "part 1: RangeMap.tla over universe 0..%d and two value atoms: every reachable "
                "representation x every insert(a,b,v) / insert_ranges(M) / remove_ranges(M) (M any "
                "sorted disjoint list of ranges over the universe); TLC checks well-formedness and "
                "the point-wise meaning on the loop-level model and prints every transition; each "
                "is replayed into the real RangeMap (from_non_overlapping_sorted_ranges(before), "
                "the operation, iter()) and compared on well-formedness and contents at every point "
                "(exact piece equality is only a drift diagnostic); by induction this covers all "
                "operation histories over the universe; part 2: one-class lexers `<class expr> = 0, "
                "_ = 1` over the digits (sets, ranges, `_`, `|`, `#`, chained and nested differences, "
                "variables, and the 13 built-in classes whose tables equal this toolchain's predicates, "
                "with the predicate ranges imported as the specification's tables) run on every "
                "boundary point +-1 against RefLexer.tla; and families.arm_family (classes in the "
                "middle of rules that share a prefix: one state with character, range and `_` arms "
                "at once) on all inputs of length <= 3; and hand-written classes of 8..11 pieces (around "
                "the guard-chain / search-table threshold), each with a sibling class that has the same "
                "first / last character and number of pieces but differs in one character: alone, before a "
                "character, both in one rule, one as a rule and one as a right context, in two rule sets; "
                "bracket sets listing 10..20 single characters (character arms) under `+` and before a character" % maxpoint,
        "samples": [{"transition": trs[0]}] if trs else [],
        "tlc_cmd": tlc.cmd, "exhaustive": True,
    }
    # Part 2: class expressions through real lexers against the reference
    n = sizes(tier, 100, 800)
    tables = predicate_tables()
    progs = [p for p in class_family(seed, n, 100, tables=tables)]
    # classes in the middle of a rule, several of them leaving the same state (families.arm_family)
    progs += F.arm_family(seed + 1, sizes(tier, 100, 500), 50000)
    # classes just below / above the guard-chain vs. binary-search-table threshold
    progs += guard_size_family(seed, 70000)
    byid = {p.id: p for p in progs}
    fr = replay_family("C11", progs, workers=8, tlc_timeout=900)
    other = replay_violations(out, fr, lambda evs: proj_tokens(evs, stop_at_invalid=False), byid,
                              "a character class accepts or rejects a character it should not")
    for f_ in fr.build_failures:
        prog = byid[f_["program"]]
        out.violations.append({
            "key": "class prog=%s" % prog.body().replace("\n", " "),
            "desc": "class expression lexer failed to build (%s): %s :: %s" % (
                f_["kind"], prog.body().replace("\n", " ")[:200], f_["message"][:200]),
            "payload": {"kind": "build", "program": prog.to_json(), "src": prog.body(), "failure": f_}})
    out.coverage["class_programs"] = fr.programs
    out.coverage["class_behaviours_replayed"] = fr.runs
    out.coverage["class_mismatching_runs"] = len(fr.mismatches)
    out.coverage["states"] += fr.tlc.distinct
    out.coverage["transitions"] += fr.tlc.states
    out.coverage["traces_validated_against_impl"] += fr.ok_runs
    out.coverage["samples"] += fr.samples[:2]
    return out


# ---------------------------------------------------------------------------------------------
# C18: table generator
# ---------------------------------------------------------------------------------------------

SEG = [(0, 0), (1, 0x3FF), (0x400, 0xD7FE), (0xD7FF, 0xD7FF), (0xD800, 0xDBFF), (0xDC00, 0xDFFF),
       (0xE000, 0xE000), (0xE001, 0xFFFF), (0x10000, 0x10FFFE), (0x10FFFF, 0x10FFFF)]


def check_C18(tier, seed):
    from common import Workspace, run_tlc, run_parallel, BUILD, HARNESS
    out = Outcome("C18")
    tlc = run_tlc("CharRangeGen.tla", "MC_CharRangeGen.cfg", workers=8, timeout=900, tag="C18")
    if not tlc.ok:
        raise ToolError("TLC found an error in CharRangeGen.tla itself:\n" + str(tlc.error))
    live = run_tlc("CharRangeGen.tla", "MC_CharRangeGen_live.cfg", workers=8, timeout=900, tag="C18_live")
    if not live.ok:
        raise ToolError("TLC: CharRangeGen.tla termination failed:\n" + str(live.error))
    cases = tlc.tagged.get("CRG", [])
    ws = Workspace("C18")
    ws.add_crate("c18_crg", CRG_MAIN % (REPO_, HARNESS, "main_crg.rs"),
                 deps='serde_json = "1"\nunicode-xid = "0.2.2"\n')
    ok, err = ws.build()
    if not ok:
        raise ToolError("table generator harness does not build:\n" + err[-2000:])
    d = os.path.join(BUILD, "C18")
    cf = os.path.join(d, "cases.ndjson")
    rf = os.path.join(d, "results.ndjson")
    with open(cf, "w") as f:
        for c in cases:
            f.write(json.dumps(c, separators=(",", ":")) + "\n")
    rcs = run_parallel([[ws.binary("c18_crg"), cf, rf]], timeout=1500)
    if rcs[0] != 0:
        raise ToolError("table generator harness failed (rc=%s)" % rcs[0])

    def concretise(rs):
        return [[SEG[a][0], SEG[b_][1]] for a, b_ in rs]

    def split_gap(rs):
        o = []
        for lo, hi in rs:
            if lo <= 0xD7FF and hi >= 0xE000:
                o += [[lo, 0xD7FF], [0xE000, hi]]
            else:
                o.append([lo, hi])
        return o

    n_ok = 0
    real = []
    with open(rf) as f:
        for line in f:
            r = json.loads(line)
            if r.get("done"):
                continue
            if "name" in r:
                real.append(r)
                key = "real predicate %s" % r["name"]
                if r.get("panic") or not r.get("equal_split") or not r.get("scalar_ends"):
                    out.violations.append({"key": key, "desc": "generator output for %s differs from the maximal runs of the predicate: %s" % (r["name"], json.dumps(r)[:300]),
                                           "payload": {"kind": "crg", "case": r}})
                else:
                    n_ok += 1
                continue
            c = cases[r["i"]]
            key = "predicate true exactly on segments %s" % c["p"]
            exp = concretise(c["out"])
            if r.get("panic"):
                out.violations.append({"key": key, "desc": "generator panicked for %s" % key,
                                       "payload": {"kind": "crg", "case": c}})
            elif [list(x) for x in r["ranges"]] != exp or any(
                    0xD800 <= x <= 0xDFFF for rr in r["ranges"] for x in rr):
                out.violations.append({"key": key, "desc": "%s: generator returned %s, the maximal scalar ranges are %s" % (
                    key, [[hex(a), hex(b_)] for a, b_ in r["ranges"]], [[hex(a), hex(b_)] for a, b_ in exp]),
                    "payload": {"kind": "crg", "case": c, "actual": r["ranges"], "expected": exp}})
            else:
                n_ok += 1
    out.coverage = {
        "states": tlc.distinct + live.distinct, "transitions": tlc.states + live.states,
        "traces_validated_against_impl": n_ok,
        "abstract_predicates": len(cases), "real_predicates": len(real),
        "rule": "CharRangeGen.tla: one action per code point of an abstract universe of 10 points "
                "(8 scalar segments {0} [1..3FF] [400..D7FE] {D7FF} | gap | {E000} [E001..FFFF] "
                "[10000..10FFFE] {10FFFF}); TLC runs the machine for all 256 predicates, checks "
                "Correct (exact, scalar end points, sorted, disjoint, non-adjacent, maximal) at "
                "termination and termination itself under weak fairness; each predicate is "
                "concretised as a real fn(char)->bool and the real generator's return value is "
                "compared with the concretised model result (a run crossing the surrogate gap is one "
                "range: U+D7FF and U+E000 are consecutive scalar values); the 20 real predicates are compared with "
                "brute-force maximal runs",
        "samples": [{"abstract_predicate": cases[0]["p"], "model_result": cases[0]["out"]}] if cases else [],
        "tlc_cmd": tlc.cmd, "exhaustive": True,
    }
    return out


# ---------------------------------------------------------------------------------------------
# C13: built-in classes
# ---------------------------------------------------------------------------------------------

BUILTINS = ["alphabetic", "alphanumeric", "ascii", "ascii_alphabetic", "ascii_alphanumeric",
            "ascii_control", "ascii_digit", "ascii_graphic", "ascii_hexdigit", "ascii_lowercase",
            "ascii_punctuation", "ascii_uppercase", "ascii_whitespace", "control", "lowercase",
            "numeric", "uppercase", "whitespace", "XID_Start", "XID_Continue"]

FAR = [(0x10FF00 + 4 * i, 0x10FF01 + 4 * i) for i in range(10)]   # ten far-away two-character ranges


def c13_module(mid, lhs, ctx=None, extra=""):
    """A lexer `lhs [> ctx] = 0, ('a' = 1,) _ = 2` and its sweep function."""
    far_txt = " ".join("'\\u{%x}'-'\\u{%x}'" % (a, b_) for a, b_ in FAR)
    lhs = (lhs or "").replace("@FAR@", "[" + far_txt + "]")
    if ctx is None:
        rules = "%s = 0u8,\n            %s\n            _ = 2u8," % (lhs, extra)
        body = """
        let input = crate::all_scalars();
        let mut acc = vec![false; 0x110000];
        let mut n = 0usize;
        for (item, ch) in L%(m)s::new(&input).zip(input.chars()) {
            match item {
                Ok((_, 0u8, _)) => acc[ch as usize] = true,
                Ok(_) => {}
                Err(e) => panic!("lexer error at {:?}: {:?}", ch, e),
            }
            n += 1;
        }
        assert_eq!(n, 1_112_064, "number of tokens");
        crate::runs_of(&acc)""" % {"m": mid}
    else:
        rules = "'a' > %s = 0u8,\n            'a' = 1u8,\n            _ = 2u8," % ctx.replace("@FAR@", "[" + far_txt + "]")
        body = """
        let input = crate::ctx_pairs();
        let mut acc = vec![false; 0x110000];
        let chars: Vec<char> = input.chars().collect();
        let mut n = 0usize;
        for (k, item) in L%(m)s::new(&input).enumerate() {
            match item {
                Ok((_, t, _)) => {
                    if k %% 2 == 0 {
                        assert!(t == 0u8 || t == 1u8, "token {} for 'a' before {:?}", t, chars[k + 1]);
                        acc[chars[k + 1] as usize] = t == 0u8;
                    } else {
                        assert!(t == 2u8, "token {} for {:?}", t, chars[k]);
                    }
                }
                Err(e) => panic!("lexer error at token {}: {:?}", k, e),
            }
            n += 1;
        }
        assert_eq!(n, 2 * 1_112_063, "number of tokens");
        crate::runs_of(&acc)""" % {"m": mid}
    return """pub mod m%(m)s {
    lexgen::lexer! {
        pub L%(m)s -> u8;
        rule Init {
            %(rules)s
        }
    }
    pub fn sweep() -> Vec<(u32, u32)> {%(body)s
    }
}
""" % {"m": mid, "rules": rules, "body": body}


def check_C13(tier, seed):
    from common import Workspace, run_tlc, run_parallel, BUILD, HARNESS
    from progs import norm, iv_diff
    out = Outcome("C13", level="exploration")
    # TLC part: the two generated membership-test shapes over all small tables
    tlc = run_tlc("Lookup.tla", "MC_Lookup.cfg", workers=8, timeout=900, tag="C13_lookup")
    if not tlc.ok:
        raise ToolError("TLC found an error in Lookup.tla:\n" + str(tlc.error))
    # lexers
    mods = []
    plan = []   # (module id, builtin, shape)
    for bi_, name in enumerate(BUILTINS):
        mods.append(c13_module("%d_nat" % bi_, "$$%s" % name))
        plan.append(("%d_nat" % bi_, name, "natural"))
        mods.append(c13_module("%d_far" % bi_, "$$%s | @FAR@" % name))
        plan.append(("%d_far" % bi_, name, "union-with-ten-ranges"))
        mods.append(c13_module("%d_low" % bi_, "$$%s # ['\\u{100}'-'\\u{10ffff}']" % name))
        plan.append(("%d_low" % bi_, name, "minus-everything-from-U+100"))
        # a target state that is kept (it has a transition): the ranges leading to it are grouped
        # and, when there are more than 9, compiled to a binary-search table in the main automaton
        mods.append(c13_module("%d_tab" % bi_, "$$%s '\\u{10fffe}'?" % name))
        plan.append(("%d_tab" % bi_, name, "kept-target-state"))
        # combined with another rule whose set overlaps the class: the subset construction has to
        # split the class's ranges without changing what the class accepts
        mods.append(c13_module("%d_ovl" % bi_, "$$%s" % name, extra="['0'-'5' 'a'-'f' 'A'-'F' '\\u{3b1}'-'\\u{3b3}' '\\u{4e00}'-'\\u{4e10}'] '!' = 1u8,"))
        plan.append(("%d_ovl" % bi_, name, "with-overlapping-later-rule"))
        if tier == "thorough" or bi_ % 4 == seed % 4:
            mods.append(c13_module("%d_ctx" % bi_, None, ctx="$$%s" % name))
            plan.append(("%d_ctx" % bi_, name, "right-context"))
    reg = ", ".join('("%s", m%s::sweep as fn() -> Vec<(u32, u32)>)' % (m, m) for m, _, _ in plan)
    gen = "\n".join(mods) + "\npub fn sweeps() -> Vec<(&'static str, fn() -> Vec<(u32, u32)>)> { vec![%s] }\n" % reg
    # split over several binaries so that rustc runs in parallel
    nb = 8
    ws = Workspace("C13", opt_level=1)
    names = []
    per = [[] for _ in range(nb)]
    for k, (m, _, _) in enumerate(plan):
        per[k % nb].append(k)
    for bi_ in range(nb):
        sel = per[bi_]
        text = "\n".join(mods[k] for k in sel) + "\npub fn sweeps() -> Vec<(&'static str, fn() -> Vec<(u32, u32)>)> { vec![%s] }\n" % (
            ", ".join('("%s", m%s::sweep as fn() -> Vec<(u32, u32)>)' % (plan[k][0], plan[k][0]) for k in sel))
        name = "c13_b%d" % bi_
        d = os.path.join(ws.crate_dir(name), "src")
        os.makedirs(d, exist_ok=True)
        with open(os.path.join(d, "generated.rs"), "w") as f:
            f.write(text)
        ws.add_crate(name, "mod generated;\n" + CRG_MAIN % (REPO_, HARNESS, "main_builtin.rs"),
                     deps='serde_json = "1"\nunicode-xid = "0.2.2"\nlexgen = { path = "%s/crates/lexgen" }\nlexgen_util = { path = "%s/crates/lexgen_util" }\n' % (
                         __import__("common").REPO, __import__("common").REPO))
        names.append(name)
    ok, err = ws.build(timeout=2400)
    if not ok:
        # which lexer? report as violation of C13/C12 with the diagnostics
        out.violations.append({"key": "build of built-in lexers", "desc": "lexers using built-in classes do not build: " + err[-600:],
                               "payload": {"kind": "build", "stderr": err[-4000:]}})
        out.coverage = {"evaluations": 1, "distinct_nontrivial": 2, "rule": "build failed", "samples": [err[-300:]]}
        return out
    d = os.path.join(BUILD, "C13")
    cmds = []
    outs = []
    for name in names:
        o = os.path.join(d, name + ".json")
        if os.path.exists(o):
            os.remove(o)
        cmds.append([ws.binary(name), o])
        outs.append(o)
    rcs = run_parallel(cmds, timeout=2400)
    sweeps = {}
    preds = {}
    for rc, o in zip(rcs, outs):
        if rc != 0 or not os.path.exists(o):
            raise ToolError("built-in sweep runner failed (rc=%s)" % rc)
        with open(o) as f:
            r = json.load(f)
        for sw in r["sweeps"]:
            sweeps[sw["id"]] = sw
        for p_ in r["predicates"]:
            preds[p_["name"].lower()] = [tuple(x) for x in p_["runs"]]
    evals = 0
    nontrivial = set()
    samples = []

    def sym_diff(a, b_):
        return norm(iv_diff(a, b_) + iv_diff(b_, a))

    import hashlib
    natural = {}
    for mid, name, shape in plan:
        sw = sweeps.get(mid)
        if sw is None:
            raise ToolError("no result for sweep %s" % mid)
        oracle = preds[name.lower()]
        if "panic" in sw:
            out.violations.append({"key": "builtin=%s shape=%s panic" % (name, shape),
                                   "desc": "$$%s (%s): %s" % (name, shape, sw["panic"][:300]),
                                   "payload": {"kind": "builtin", "name": name, "shape": shape, "panic": sw["panic"]}})
            continue
        got = [tuple(x) for x in sw["runs"]]
        evals += 1112064
        if shape == "natural":
            natural[name] = got
            want = oracle
        else:
            base = natural.get(name, oracle)
            if shape == "union-with-ten-ranges":
                want = norm(base + FAR)
            elif shape == "minus-everything-from-U+100":
                want = iv_diff(base, [(0x100, 0x10FFFF)])
            elif shape in ("kept-target-state", "with-overlapping-later-rule"):
                want = base
            else:
                want = iv_diff(base, [(97, 97)])   # 'a' itself is not swept in the context lexer
                got = iv_diff(got, [(97, 97)])
        nontrivial.add((name, shape, len(got)))
        df = sym_diff(got, want)
        if df:
            n_bad = sum(b_ - a + 1 for a, b_ in df)
            digest = hashlib.sha1(json.dumps(df).encode()).hexdigest()[:12]
            what = ("table differs from the Rust predicate" if shape == "natural"
                    else "accepts a different set than the same class in its natural shape")
            out.violations.append({
                "key": "builtin=%s shape=%s mismatch=%s" % (name, shape, digest),
                "desc": "$$%s (%s) %s on %d scalar values, first U+%04X..U+%04X" % (
                    name, shape, what, n_bad, df[0][0], df[0][1]),
                "payload": {"kind": "builtin", "name": name, "shape": shape, "mismatch_ranges": df[:50],
                            "n_mismatching": n_bad}})
        if len(samples) < 3:
            samples.append({"builtin": name, "shape": shape, "accepted_runs_head": got[:5], "n_runs": len(got)})
    out.coverage = {
        "evaluations": evals,
        "distinct_nontrivial": len(nontrivial),
        "rule": "for each of the 20 built-in names, lexers `$$n = 0, _ = 2` in the natural shape, "
                "`$$n | <ten far-away ranges>` (forces the binary-search table), `$$n # [U+100-U+10FFFF]` "
                "(forces the guard chain for the big classes) and, for a rotating subset (all in the "
                "thorough tier), `'a' > $$n` (right-context membership test) are compiled with the real "
                "macro and run on a string of all 1,112,064 scalar values; the natural shape is compared "
                "with char::is_* / unicode-xid (oracle imported at check time), the other shapes with "
                "the natural shape; non-trivial = distinct (built-in, shape); TLC (Lookup.tla) checks "
                "that both generated membership-test shapes equal union membership for all sorted "
                "disjoint tables over a small universe",
        "samples": samples,
        "exhaustive": True,
        "lookup_spec_states": tlc.distinct,
        "tlc_cmd": tlc.cmd,
    }
    return out


# ---------------------------------------------------------------------------------------------
# C16 / C17: syntax, scoping, static checks -- through lexer_verif! (expansion only)
# ---------------------------------------------------------------------------------------------

def verif_crates(tag, invocations, nb=12):
    """Build crates that only contain `lexgen::lexer_verif! { <id>; <definition> }` invocations.
    invocations: list of (ident, definition text).  Returns (workspace, {ident: outcome dict})."""
    from common import Workspace, REPO
    ws = Workspace(tag)
    per = [[] for _ in range(nb)]
    for k, inv in enumerate(invocations):
        per[k % nb].append(inv)
    for bi_, invs in enumerate(per):
        if not invs:
            continue
        body = "\n".join("lexgen::lexer_verif! { %s; %s }" % (ident, text) for ident, text in invs)
        ws.add_crate("%s_v%d" % (tag.lower(), bi_), "#![allow(dead_code)]\n" + body + "\nfn main() {}\n",
                     deps='lexgen = { path = "%s/crates/lexgen" }\n' % REPO)
    ok, err = ws.build(timeout=2400, expand_timeout=60)
    outcomes = {}
    for ident, _ in invocations:
        p_ = os.path.join(ws.dumps, ident + ".outcome.json")
        if os.path.exists(p_):
            with open(p_) as f:
                outcomes[ident] = json.load(f)
    return ws, outcomes, ok, err


def boundary_reps(prog):
    """Boundary representatives of a definition: every literal character and range end point,
    +-1, plus one far-away character."""
    pts = set()

    def walk(re):
        k = re["k"]
        if k == "chr":
            pts.update((re["c"] - 1, re["c"], re["c"] + 1))
        elif k == "str":
            for c in re["s"]:
                pts.update((c - 1, c, c + 1))
        elif k == "set":
            for it in re["items"]:
                pts.update((it["lo"] - 1, it["lo"], it["hi"], it["hi"] + 1))
        for f in ("a", "b"):
            if f in re:
                walk(re[f])

    for r in prog.rules():
        walk(r["re"])
        if r.get("ctx") is not None:
            walk(r["ctx"])
    for _, re, _ in prog.env:
        walk(re)
    pts.add(0x10FF00)
    return sorted(c for c in pts if 0 <= c <= 0x10FFFF and not (0xD800 <= c <= 0xDFFF))


def dump_programs(tag, programs, nb=12):
    """Expand the definitions with the real macro (expansion only, lexer_verif!) and collect the
    automata it dumped.  Returns (workspace, {prog id: dump or None}, {prog id: outcome})."""
    invs = []
    for p in programs:
        invs.append(("V%d" % p.id, "%s(St) -> Tok; type Error = UErr; %s" % (p.lexer_name(), p.body())))
    ws, outcomes, ok, err = verif_crates(tag, invs, nb=nb)
    dumps = {}
    outs = {}
    for p in programs:
        dumps[p.id] = ws.dump(p.lexer_name())
        outs[p.id] = outcomes.get("V%d" % p.id)
    return ws, dumps, outs, ok, err


class _Merged:
    """sum of several TLC results"""
    def __init__(self):
        self.states = 0
        self.distinct = 0
        self.wall = 0.0
        self.cmd = ""

    def add(self, r):
        self.states += r.states
        self.distinct += r.distinct
        self.wall += r.wall
        self.cmd = r.cmd


CHUNK = 5000


def bisim_check(tag, pairs, workers=10, timeout=3000):
    """pairs: list of (program, dump, program json override or None).  Runs TLC on Bisim.tla (in
    chunks of at most CHUNK pairs).  Returns (tlc result, bad list, badmap list, seen ids)."""
    from common import run_tlc, BUILD
    d = os.path.join(BUILD, tag)
    os.makedirs(d, exist_ok=True)
    arr = []
    for prog, dump, override in pairs:
        j = dict(override if override is not None else prog.to_json())
        j["reps"] = boundary_reps(prog)
        j["nobi"] = '"bi"' not in json.dumps(j["rules"]) and '"bi"' not in json.dumps(j["env"])
        arr.append({"prog": j, "dump": {k: dump[k] for k in ("dfa_pre", "dfa", "ctx", "entry_pre", "entry",
                                                               "renumber", "switch_arms", "nfa") if k in dump}})
    merged = _Merged()
    bad, badmap, seen = [], [], set()
    for old in os.listdir(d):
        if old.startswith("bisim") and old.endswith(".json"):
            os.remove(os.path.join(d, old))
    for ci in range(0, max(1, len(arr)), CHUNK):
        pj = os.path.join(d, "bisim%d.json" % (ci // CHUNK))
        with open(pj, "w") as f:
            json.dump(arr[ci:ci + CHUNK], f)
        res = run_tlc("Bisim.tla", "MC_Bisim.cfg", env={"VERIF_BISIM": pj}, workers=workers, timeout=timeout,
                      tag="%s_bisim%d" % (tag, ci // CHUNK), heap="10g")
        if not res.ok:
            raise ToolError("TLC failed on Bisim.tla (%s):\n%s" % (tag, res.error))
        merged.add(res)
        bad += res.tagged.get("BAD", [])
        badmap += res.tagged.get("BADMAP", [])
        seen |= {x["p"] for x in res.tagged.get("SEEN", [])}
    return merged, bad, badmap, seen


def stages_check(tag, workers=10, timeout=3000):
    """Thompson construction (exact NFA) and subset construction (product with NFA state sets) on
    the pairs files bisim_check wrote.  Returns (tlc, bad thompson ids, bad subset list, n)."""
    from common import run_tlc, BUILD
    d = os.path.join(BUILD, tag)
    merged = _Merged()
    bad_th, bad_sub, n = [], [], 0
    files = sorted(f for f in os.listdir(d) if f.startswith("bisim") and f.endswith(".json"))
    for k, fn in enumerate(files):
        res = run_tlc("Stages.tla", "MC_Stages.cfg", env={"VERIF_BISIM": os.path.join(d, fn)}, workers=workers,
                      timeout=timeout, tag="%s_stages%d" % (tag, k), heap="10g")
        if not res.ok:
            raise ToolError("TLC failed on Stages.tla (%s):\n%s" % (tag, res.error))
        merged.add(res)
        bad_th += [x["p"] for x in res.tagged.get("STAGE", []) if not x["thompson"]]
        bad_sub += res.tagged.get("BADSUBSET", [])
        n += len(res.tagged.get("STAGE", []))
    return merged, bad_th, bad_sub, n


ATOM_TXT = {"a": "'a'", "b": "'b'", "K": "['a'-'c']", "_": "_", "S": '"ab"', "D": "$", "B": "$$ascii_digit"}
ATOM_DBG = {"a": "Char('a')", "b": "Char('b')", "K": "CharSet(CharSet([Range('a', 'c')]))", "_": "Any",
            "S": 'String("ab")', "D": "EndOfInput", "B": 'Builtin(Builtin("ascii_digit"))'}


def tree_dbg(t):
    k = t["k"]
    if k == "atom":
        return ATOM_DBG[t["x"]]
    if k in ("star", "plus", "opt"):
        return {"star": "ZeroOrMore", "plus": "OneOrMore", "opt": "ZeroOrOne"}[k] + "(" + tree_dbg(t["a"]) + ")"
    return {"alt": "Or", "cat": "Concat", "diff": "Diff"}[k] + "(" + tree_dbg(t["a"]) + ", " + tree_dbg(t["b"]) + ")"


def toks_txt(toks):
    return " ".join(ATOM_TXT.get(t, t) for t in toks)


def ast_re(dump_ast):
    """the `re:` field of the first rule in the Debug text of the parsed definition"""
    import re as _re
    m = _re.search(r"lhs: RegexCtx \{ re: (.*?), right_ctx: ", dump_ast)
    return m.group(1) if m else None


def check_C16(tier, seed):
    from common import run_tlc, BUILD
    import random
    out = Outcome("C16")
    maxops = 2 if tier == "quick" else 3
    os.makedirs(BUILD, exist_ok=True)

    def syntax_run(tag, ops, small):
        cfg = os.path.join(BUILD, "%s_syntax.cfg" % tag)
        with open(cfg, "w") as f:
            f.write("CONSTANTS\n  MaxOps = %d\n  SmallAtoms = %s\nINIT Init\nNEXT Next\nINVARIANTS RoundTrip %sPrintCase\nCHECK_DEADLOCK FALSE\n" % (
                ops, "TRUE" if small else "FALSE", "" if small else "ReadmeExample "))
        r = run_tlc("Syntax.tla", cfg, workers=12, timeout=3000, tag=tag, heap="10g")
        if not r.ok:
            raise ToolError("TLC found an error in Syntax.tla:\n" + str(r.error))
        return r

    # all seven atoms up to two operators; thorough: additionally three operators over three atoms
    tlc = syntax_run("C16", 2, False)
    cases = tlc.tagged.get("SYN", [])
    if tier != "quick":
        deep = syntax_run("C16_deep", 3, True)
        seen_ = {tuple(c["toks"]) for c in cases}
        cases = cases + [c for c in deep.tagged.get("SYN", []) if tuple(c["toks"]) not in seen_]
        tlc.distinct += deep.distinct
        tlc.states += deep.states
    # `$` directly followed by `$` is the start of a built-in (`$$name`) for the tokenizer: the
    # grammar has no way to write end-of-input followed by `$...` without parentheses, so those
    # token strings are not printings of the tree (and `$` is only meaningful at the tail anyway)
    def dollar_clash(toks):
        return any(a == "D" and b_ in ("D", "B") for a, b_ in zip(toks, toks[1:]))
    cases = [c for c in cases if not dollar_clash(c["toks"])]
    rnd = random.Random(seed)
    cap = 12000 if tier == "quick" else 60000
    if len(cases) > cap:
        cases = rnd.sample(cases, cap)
    invs = []
    for i, c in enumerate(cases):
        invs.append(("V%d" % i, "L%d -> u8; rule Init { %s = 0u8, }" % (i, toks_txt(c["toks"]))))
    # scoping / let factoring: for a sample of trees with >= 1 operator
    scoped = []
    big = [c for c in cases if c["tree"]["k"] != "atom"]
    for j, c in enumerate(rnd.sample(big, min(len(big), 150 if tier == "quick" else 1500))):
        t = c["tree"]
        sub = t["a"]
        if dollar_clash(sub_toks(sub)) or dollar_clash(with_var(t)):
            continue
        sub_txt = toks_txt(sub_toks(sub))
        whole_with_var = toks_txt(with_var(t))
        base = 100000 + 10 * j
        plain = toks_txt(c["toks"])
        # the lexers below must all compile to the same automaton as `plain`
        scoped.append((base + 0, "plain", "rule Init { %s = 0u8, }" % plain, None))
        scoped.append((base + 1, "top-level let", "let v = %s; rule Init { %s = 0u8, }" % (sub_txt, whole_with_var), base))
        scoped.append((base + 2, "rule-set let", "rule Init { let v = %s; %s = 0u8, }" % (sub_txt, whole_with_var), base))
        scoped.append((base + 3, "top-level let used in a later rule set",
                       "let v = %s; rule Init { 'b' = 1u8, } rule A { %s = 0u8, }" % (sub_txt, whole_with_var), None))
        scoped.append((base + 4, "plain in a later rule set", "rule Init { 'b' = 1u8, } rule A { %s = 0u8, }" % plain, None))
        # a rule-set-local binding is not visible in another rule set: must be rejected
        scoped.append((base + 5, "rule-set let used in another rule set (must be rejected)",
                       "rule Init { let v = %s; 'b' = 1u8, } rule A { %s = 0u8, }" % (sub_txt, whole_with_var), "reject"))
    for ident, what, text, ref in scoped:
        invs.append(("V%d" % ident, "L%d -> u8; %s" % (ident, text)))
    ws, outcomes, ok, err = verif_crates("C16", invs)
    if not ok and not outcomes:
        raise ToolError("C16 verif crates failed to build:\n" + err[-2000:])
    n_ok = 0
    for i, c in enumerate(cases):
        ident = "V%d" % i
        text = toks_txt(c["toks"])
        key = "regex text=%s" % text
        d = ws.dump("L%d" % i)
        o = outcomes.get(ident)
        if d is None or o is None:
            out.violations.append({"key": key, "desc": "no syntax tree produced for `%s` (outcome %s)" % (text, o and o.get("outcome")),
                                   "payload": {"kind": "syntax", "text": text, "tree": c["tree"], "outcome": o}})
            continue
        got = ast_re(d.get("ast", ""))
        want = tree_dbg(c["tree"])
        if got != want:
            out.violations.append({"key": key, "desc": "`%s` was read as %s, the documented grammar reads it as %s" % (text, got, want),
                                   "payload": {"kind": "syntax", "text": text, "tree": c["tree"], "got": got, "want": want}})
        else:
            n_ok += 1
    n_scope = 0
    for ident, what, text, ref in scoped:
        o = outcomes.get("V%d" % ident)
        key = "scoping %s: %s" % (what, text)
        if ref == "reject":
            if o is None or o["outcome"] == "ok":
                out.violations.append({"key": key, "desc": "a rule-set-local `let` was visible in another rule set: `%s` expanded" % text,
                                       "payload": {"kind": "scoping", "text": text, "outcome": o}})
            else:
                n_scope += 1
            continue
        d = ws.dump("L%d" % ident)
        if d is None or o is None or o["outcome"] != "ok":
            out.violations.append({"key": key, "desc": "`%s` (%s) did not expand: %s" % (text, what, o and (o.get("message") or "")[:200]),
                                   "payload": {"kind": "scoping", "text": text, "outcome": o}})
            continue
        if isinstance(ref, int):
            dref = ws.dump("L%d" % ref)
            if dref is None or dref.get("dfa") != d.get("dfa"):
                out.violations.append({"key": key, "desc": "naming a sub-tree with a `let` changed the automaton: `%s`" % text,
                                       "payload": {"kind": "scoping", "text": text}})
                continue
        n_scope += 1
    # the two "later rule set" variants must agree with each other
    for j in range(0, len(scoped), 6):
        a, b_ = ws.dump("L%d" % scoped[j + 3][0]), ws.dump("L%d" % scoped[j + 4][0])
        if a is not None and b_ is not None and a.get("dfa") != b_.get("dfa"):
            out.violations.append({"key": "scoping later-set: %s" % scoped[j + 3][2],
                                   "desc": "a top-level `let` used in a later rule set changed the automaton: `%s`" % scoped[j + 3][2],
                                   "payload": {"kind": "scoping", "text": scoped[j + 3][2]}})
    out.coverage = {
        "states": tlc.distinct, "transitions": tlc.states,
        "traces_validated_against_impl": n_ok + n_scope,
        "printed_trees": len(cases), "scoping_variants": len(scoped),
        "rule": "Syntax.tla: all regex trees with <= 2 operators over 7 atoms ('a' 'b' ['a'-'c'] _ \"ab\" $ "
                "$$ascii_digit; `#` only between classes)%s, printed with minimal "
                "parentheses, with one redundant pair around each sub-tree in turn, and with all of "
                "them; TLC checks Parse(Print(t)) = t for the documented five-level grammar and "
                "prints every (tree, token string); each string is expanded by the real macro "
                "(lexer_verif!) and the syntax tree its parser built (dump hook) compared with the "
                "tree; for a sample of trees a sub-tree is named with a top-level or rule-set-local "
                "`let` and the compiled automaton must be identical; a rule-set-local binding used "
                "in another rule set must be rejected" % (
                    "" if tier == "quick" else " and with <= 3 operators over the atoms 'a' ['a'-'c'] _ (a sample of %d token strings in all)" % len(cases)),
        "samples": [{"tree": cases[0]["tree"], "text": toks_txt(cases[0]["toks"])}] if cases else [],
        "tlc_cmd": tlc.cmd, "exhaustive": tier != "quick" or len(cases) < 12000,
    }
    return out


def sub_toks(t):
    """minimal printing of a tree as tokens (mirror of Syntax!PrintMin)"""
    lv = {"alt": 0, "cat": 1, "star": 2, "plus": 2, "opt": 2, "diff": 3}

    def pr(t, lvl):
        k = t["k"]
        if k == "atom":
            body = [t["x"]]
        elif k == "alt":
            body = pr(t["a"], 0) + ["|"] + pr(t["b"], 1)
        elif k == "cat":
            body = pr(t["a"], 1) + pr(t["b"], 2)
        elif k in ("star", "plus", "opt"):
            body = pr(t["a"], 2) + [{"star": "*", "plus": "+", "opt": "?"}[k]]
        else:
            body = pr(t["a"], 3) + ["#"] + pr(t["b"], 4)
        if lv.get(k, 4) < lvl:
            body = ["("] + body + [")"]
        return body
    return pr(t, 0)


def with_var(t):
    """tokens of tree t with its left/only operand replaced by `$v` (a variable is an atom)"""
    k = t["k"]
    if k in ("star", "plus", "opt"):
        return ["$v", {"star": "*", "plus": "+", "opt": "?"}[k]]
    rb = sub_toks(t["b"])
    lvl_b = {"alt": 1, "cat": 2, "diff": 4}[k]
    lv = {"alt": 0, "cat": 1, "star": 2, "plus": 2, "opt": 2, "diff": 3}
    if lv.get(t["b"]["k"], 4) < lvl_b:
        rb = ["("] + rb + [")"]
    if k == "alt":
        return ["$v", "|"] + rb
    if k == "cat":
        return ["$v"] + rb
    return ["$v", "#"] + rb


BODY_TXT = {"lit": "'a' 'b'", "usex": "$x 'c'", "usey": "$y", "badbi": "$$nosuchclass 'a'",
            "baddiff": "'a' # \"bc\""}

MALFORMED = [
    ("missing arrow", "L u8; 'a' = 0u8,"),
    ("missing semicolon after header", "L -> u8 'a' = 0u8,"),
    ("rule set without name", "L -> u8; rule { 'a' = 0u8, }"),
    ("missing comma after rule", "L -> u8; 'a' = 0u8 'b' = 1u8,"),
    ("let without =", "L -> u8; let x 'a'; 'b' = 0u8,"),
    ("let without semicolon", "L -> u8; let x = 'a' 'b' = 0u8,"),
    ("unknown keyword", "L -> u8; foo 'a' = 0u8,"),
    ("type with wrong name", "L -> u8; type Err = u8; 'a' = 0u8,"),
    ("empty alternative", "L -> u8; 'a' | = 0u8,"),
    ("dangling #", "L -> u8; 'a' # = 0u8,"),
    ("postfix without operand", "L -> u8; * 'a' = 0u8,"),
    ("unclosed range in set", "L -> u8; ['a'-] = 0u8,"),
    ("empty parentheses", "L -> u8; () 'a' = 0u8,"),
    ("right context without regex", "L -> u8; 'a' > = 0u8,"),
    ("missing rule body", "L -> u8; 'a' =>,"),
]


def def_text(items):
    out = []
    for it in items:
        k = it["k"]
        if k == "err":
            out.append("type Error = u8;")
        elif k == "let":
            out.append("let %s = %s;" % (it["n"], BODY_TXT[it["body"]]))
        elif k == "rule":
            out.append("%s = 0u8," % BODY_TXT[it["body"]])
        else:
            out.append("rule %s { %s }" % (it["n"], def_text(it["items"])))
    return " ".join(out)


def check_C17(tier, seed):
    from common import run_tlc
    import random
    out = Outcome("C17")
    cases = []
    states = 0
    trans = 0
    cmd = ""
    for cfg in ("MC_Defs_a.cfg", "MC_Defs_b.cfg"):
        tlc = run_tlc("Defs.tla", cfg, workers=8, timeout=1500, tag="C17_" + cfg[8])
        if not tlc.ok:
            raise ToolError("TLC found an error in Defs.tla:\n" + str(tlc.error))
        cases += tlc.tagged.get("DEF", [])
        states += tlc.distinct
        trans += tlc.states
        cmd = tlc.cmd
    # de-duplicate (the two configurations overlap)
    seen = {}
    for c in cases:
        seen[json.dumps(c["items"], sort_keys=True)] = c
    cases = list(seen.values())
    rnd = random.Random(seed)
    bad = [c for c in cases if not c["wf"]]
    good = [c for c in cases if c["wf"]]
    if tier == "quick":
        bad = rnd.sample(bad, min(len(bad), 25000))
    sel = bad + good
    invs = []
    for i, c in enumerate(sel):
        invs.append(("V%d" % i, "L%d -> u8; %s" % (i, def_text(c["items"]))))
    for j, (what, text) in enumerate(MALFORMED):
        invs.append(("V%d" % (900000 + j), text.replace("L ", "L%d " % (900000 + j), 1)))
    ws, outcomes, ok, err = verif_crates("C17", invs)
    if not ok and not outcomes:
        raise ToolError("C17 verif crates failed to build:\n" + err[-2000:])
    n_rej = n_acc = 0
    for i, c in enumerate(sel):
        o = outcomes.get("V%d" % i)
        text = def_text(c["items"])
        key = "definition: %s" % text
        if o is None:
            # a crash of the compiler process is a rejection of sorts, but not an orderly one
            out.violations.append({"key": key, "desc": "no outcome recorded for `%s` (compiler crashed?)" % text,
                                   "payload": {"kind": "definition", "text": text, "items": c["items"]}})
            continue
        if c["wf"]:
            if o["outcome"] != "ok":
                out.notes.append("well-formed definition rejected (C12's business): %s :: %s" % (text, o.get("message", "")[:80]))
            else:
                n_acc += 1
        else:
            if o["outcome"] == "ok":
                out.violations.append({"key": key, "desc": "ill-formed definition was silently turned into a lexer: `%s`" % text,
                                       "payload": {"kind": "definition", "text": text, "items": c["items"], "outcome": o}})
            else:
                n_rej += 1
    n_syn = 0
    for j, (what, text) in enumerate(MALFORMED):
        o = outcomes.get("V%d" % (900000 + j))
        if o is None or o["outcome"] == "ok":
            out.violations.append({"key": "malformed syntax: %s" % what, "desc": "malformed definition (%s) was accepted: `%s`" % (what, text),
                                   "payload": {"kind": "definition", "text": text, "outcome": o}})
        else:
            n_syn += 1
    out.notes = out.notes[:5]
    out.coverage = {
        "states": states, "transitions": trans,
        "traces_validated_against_impl": n_rej + n_acc + n_syn,
        "ill_formed_definitions_rejected": n_rej, "well_formed_definitions_accepted": n_acc,
        "malformed_syntax_cases_rejected": n_syn,
        "definitions_enumerated": len(cases),
        "rule": "Defs.tla: every definition with <= 3 top-level items (rule sets with <= 1 inner item) and "
                "<= 2 top-level items (rule sets with <= 2 inner items) over: `type Error`, `let x/y` "
                "(bodies: plain, using $x, unknown built-in, non-class operand of #), unnamed rules, "
                "rule sets Init/A with local lets and rules; TLC evaluates WellFormed (mixing, first "
                "rule set Init, duplicates, error type twice, lazily resolved unbound variables, "
                "unknown built-in / bad # operand in a used position) and prints each definition with "
                "the verdict; every ill-formed one%s and every well-formed one is expanded by the "
                "real macro: ill-formed => panic or compile_error, never code; plus %d hand-written "
                "malformed-syntax definitions" % (" (a seeded sample of 25000 in the quick tier)" if tier == "quick" else "", len(MALFORMED)),
        "samples": [{"definition": def_text(bad[0]["items"]), "well_formed": False},
                    {"definition": def_text(good[0]["items"]), "well_formed": True}],
        "tlc_cmd": cmd, "exhaustive": tier != "quick",
    }
    return out


# ---------------------------------------------------------------------------------------------
# C02: regex operators denote their documented languages (artifact validation by bisimulation)
# ---------------------------------------------------------------------------------------------

def fre_trees(max_ops):
    from progs import chr_, str_, set_, any_, star, plus, opt, cat, alt
    atoms = [chr_(97), chr_(98), str_([97, 98]), set_([(97, 98)]), set_([(97, 97), (99, 99)]), any_()]
    by = {0: list(atoms)}
    for n in range(1, max_ops + 1):
        cur = []
        for t in by[n - 1]:
            cur += [star(t), plus(t), opt(t)]
        for m in range(0, n):
            for l in by[m]:
                for r in by[n - 1 - m]:
                    cur += [cat(l, r), alt(l, r)]
        by[n] = cur
    out = []
    for n in range(0, max_ops + 1):
        out += by[n]
    return out


def rewrite_equiv(re, rnd):
    """A regex denoting the same language, by one of the README equivalences applied at the
    first place where one applies: r+ -> r r*, a|b -> b|a, "ab" -> 'a' 'b'."""
    from progs import cat, star, alt, chr_
    k = re["k"]
    if k == "plus":
        return cat(re["a"], star(re["a"]))
    if k == "alt":
        return alt(re["b"], re["a"])
    if k == "str" and len(re["s"]) >= 2:
        out = chr_(re["s"][0])
        for c in re["s"][1:]:
            out = cat(out, chr_(c))
        return out
    for f in ("a", "b"):
        if f in re:
            r2 = rewrite_equiv(re[f], rnd)
            if r2 is not None:
                return dict(re, **{f: r2})
    return None


def confirm_on_real(pid, tag, prog, inputs):
    """Replay the reference behaviours for `inputs` on the real compiled lexer of `prog`.
    Returns list of mismatches (req, actual)."""
    import copy
    q = copy.copy(prog)
    q.inputs = [list(i) for i in inputs]
    fr = replay_family(tag, [q], workers=2, tlc_timeout=300)
    return fr


def bad_to_violation(out, pid, b_, byid, what, confirm=True):
    """A disagreement found by TLC between a real automaton and the reference automaton: turn the
    path into witness inputs and confirm on the real lexer before reporting (DESIGN 2.2)."""
    prog = byid[b_["p"]]
    path = [c for c in b_["path"] if c >= 0]
    key = "artifact prog=%s mode=%s path=%s" % (prog.body().replace("\n", " ").replace("  ", " "), b_["mode"], path)
    desc = "%s: the automaton compiled for program %d (%s, rule set/context %d) disagrees with the reference automaton after reading %s" % (
        what, b_["p"], b_["mode"], b_["which"], path)
    confirmed = None
    if confirm and prog.well_formed() and b_["mode"] != "ctx":
        inputs = [path] + [path + [c] for c in boundary_reps(prog)[:12]]
        try:
            fr = confirm_on_real(pid, pid + "_confirm", prog, inputs)
            confirmed = len(fr.mismatches) > 0 or len(fr.build_failures) > 0
            if confirmed and fr.mismatches:
                m = fr.mismatches[0]
                desc += "; confirmed on the real lexer: input %s gives %s, expected %s" % (
                    m["req"]["inp"], proj_tokens(strip_lx(m["actual"]))[:6], proj_tokens(m["req"]["ev"])[:6])
        except ToolError as ex:
            desc += " (confirmation run failed: %s)" % str(ex)[:100]
    if confirmed is False:
        out.notes.append("MODEL-DRIFT: " + desc + " -- but the real lexer behaves as the reference on the witness inputs")
        return
    out.violations.append({"key": key, "desc": desc,
                           "payload": {"kind": "artifact", "program": prog.to_json(), "src": prog.body(),
                                       "disagreement": b_, "confirmed_on_real_lexer": confirmed}})


def check_C02(tier, seed):
    import random
    from progs import nullable, classes_ok
    out = Outcome("C02")
    rnd = random.Random(seed)
    trees = [t for t in fre_trees(2) if not nullable(t, {}) and classes_ok(t, {})]
    if tier == "thorough":
        t3 = [t for t in fre_trees(3) if not nullable(t, {}) and classes_ok(t, {})]
        trees = trees + rnd.sample(t3, min(len(t3), 6000))
    progs = []
    for i, t in enumerate(trees):
        progs.append(Program(i + 1, [("Init", [F.simple_rule(t)])], sigma=(97, 98, 99, 120), k=4))
    # nested / nullable repetition (`('a'*)*`, `('a'? | 'b')+`, ...): every tree with <= 2 operators
    # that can match the empty string, closed off by a character before or after it
    from progs import cat as _cat, chr_ as _chr
    nul = [t for t in fre_trees(2) if nullable(t, {}) and classes_ok(t, {}) and t["k"] != "str"]
    for t in nul:
        for re_ in (_cat(t, _chr(120)), _cat(_chr(120), t)):
            progs.append(Program(len(progs) + 1, [("Init", [F.simple_rule(re_)])], sigma=(97, 98, 99, 120), k=4))
    # larger random ones: overlapping ranges, `_` mixed with ranges and literals, nested repetition
    big = F.random_general(seed, sizes(tier, 150, 1200), 200000, k=3, nsets=(1, 1, 2), nrules=(1, 2, 3),
                           depth=4, p_ctx=0.15, p_eoi=0.15, p_var=0.3, menu_sizes=(1,))
    # the same with multi-byte letters (strings ending in a non-ASCII character, seed S-F16)
    big += F.random_general(seed + 9, sizes(tier, 60, 400), 250000, k=3, nsets=(1, 1, 2), nrules=(1, 2, 3),
                            depth=3, p_var=0.2, menu_sizes=(1,), letters=(97, 233, 28450),
                            sigma=(97, 233, 28450, 128512))
    big = F.add_quirks(big, seed)
    classes = class_family(seed, sizes(tier, 120, 600), 300000)
    # two rules whose leading ranges overlap in every possible way (the subset construction
    # merges their range transitions; the later rule must not disturb the earlier one)
    from progs import set_, chr_, cat
    pairs_ = []
    letters_ = [97, 98, 99, 100, 101]
    rngs = [(a, b_) for i, a in enumerate(letters_) for b_ in letters_[i:]]
    pid_ = 400000
    for r1 in rngs:
        for r2 in rngs:
            if r1 == r2 or r1[1] < r2[0] or r2[1] < r1[0]:
                continue
            pairs_.append(Program(pid_, [("Init", [F.simple_rule(cat(set_([r1] if r1[0] != r1[1] else [(r1[0], r1[1] + 0)]), chr_(120))),
                                                   F.simple_rule(cat(set_([r2]), chr_(121)))])], sigma=(97, 99, 101, 120), k=2))
            pid_ += 1
    if tier == "quick":
        pairs_ = rnd.sample(pairs_, min(len(pairs_), 90))
    # the same on both sides of the surrogate gap (U+D7FF and U+E000 are consecutive scalar
    # values; splitting must not leave an end point that is not a character)
    gap_ = [0xD7FE, 0xD7FF, 0xE000, 0xE001]
    grngs = [(a, b_) for i, a in enumerate(gap_) for b_ in gap_[i:]]
    gpairs = []
    for r1 in grngs:
        for r2 in grngs:
            if r1 == r2 or r1[1] < r2[0] or r2[1] < r1[0]:
                continue
            gpairs.append(Program(pid_, [("Init", [F.simple_rule(cat(set_([r1]), chr_(120))),
                                                   F.simple_rule(cat(set_([r2]), chr_(121)))])], sigma=gap_ + [120], k=2))
            pid_ += 1
    pairs_ += gpairs if tier != "quick" else rnd.sample(gpairs, min(len(gpairs), 25))
    # one state with character, range and `_` transitions at once, overlapping in every way
    arms = (F.arm_family(seed, sizes(tier, 120, 500), 500000)
            + F.arm_family(seed + 1, sizes(tier, 100, 500), 510000))
    allp = progs + big + classes + pairs_ + arms
    byid = {p.id: p for p in allp}
    ws, dumps, outs, ok, err = dump_programs("C02", allp, nb=14)
    pairs = []
    crossed = 0
    for p in allp:
        d = dumps.get(p.id)
        if d is None or d.get("panicked") or "dfa" not in d:
            o = outs.get(p.id)
            out.notes.append("program %d not expanded (%s) -- judged by C12" % (p.id, o and o.get("outcome")))
            continue
        pairs.append((p, d, None))
        # the automaton of a regex must also be the reference automaton of an equivalent regex
        if p.id < 200000:
            r0 = p.sets[0][1][0]["re"]
            r2 = rewrite_equiv(r0, rnd)
            if r2 is not None:
                j = p.to_json()
                j["rules"][0]["re"] = r2
                pairs.append((p, d, j))
                crossed += 1
    out.notes = out.notes[:5]
    res, bad, badmap, seen = bisim_check("C02", pairs, workers=12 if tier == "quick" else 14)
    for b_ in bad[:30]:
        bad_to_violation(out, "C02", b_, byid, "language differs")
    st_res, bad_th, bad_sub, n_st = stages_check("C02", workers=12 if tier == "quick" else 14)
    for pid_ in bad_th[:5]:
        out.notes.append("NFA of program %d is not the one Stages.tla (Thompson construction) builds; its language is judged by the bisimulation" % pid_)
    for b_ in bad_sub[:5]:
        out.notes.append("DFA of program %d is not the subset construction of its dumped NFA after %s; its language is judged by the bisimulation" % (b_["p"], b_["path"]))
    # oracle self-check: declarative Ends / Open agree with the derivative automaton
    from common import run_tlc, BUILD
    sample = rnd.sample(progs, min(len(progs), sizes(tier, 300, 3000)))
    pj = os.path.join(BUILD, "C02", "oracle_progs.json")
    with open(pj, "w") as f:
        json.dump([p.to_json() for p in sample], f)
    orc = run_tlc("MC_RefLexer.tla", "MC_RefLexer_oracle.cfg", env={"VERIF_PROGS": pj}, workers=10,
                  timeout=1500, tag="C02_oracle")
    if not orc.ok:
        raise ToolError("the reference specification is inconsistent (declarative vs derivative): " + str(orc.error))
    # a sample compiled for real and run on all inputs
    run_sample = (rnd.sample(progs, min(len(progs), sizes(tier, 100, 600))) + big[:sizes(tier, 30, 300)]
                  + [p for p in big if p.id >= 250000][:sizes(tier, 30, 200)] + arms)
    fr = replay_family("C02", run_sample, workers=8, tlc_timeout=900)
    rb = {p.id: p for p in run_sample}
    other = replay_violations(out, fr, lambda evs: proj_tokens(evs, stop_at_invalid=False), rb,
                              "tokens of the lexer differ from the regex languages")
    out.coverage = {
        "states": res.distinct + orc.distinct + fr.tlc.distinct + st_res.distinct,
        "transitions": res.states + orc.states + fr.tlc.states + st_res.states,
        "traces_validated_against_impl": len(seen) + fr.ok_runs,
        "programs": len(allp),
        "automata_compared_with_reference": len(pairs),
        "of_which_against_an_equivalent_regex": crossed,
        "product_states": res.distinct,
        "nfas_equal_to_thompson_spec": n_st - len(bad_th),
        "nfas_differing_from_thompson_spec": len(bad_th),
        "subset_product_states": st_res.distinct,
        "subset_disagreements": len(bad_sub),
        "disagreements_checked": len(bad),
        "oracle_selfcheck_states": orc.distinct,
        "behaviours_replayed": fr.runs,
        "rule": "all non-nullable regex trees with <= 2 operators over atoms 'a' 'b' \"ab\" ['a'-'b'] "
                "['a' 'c'] _ and operators * + ? concatenation | (thorough: + a sample of 3-operator "
                "trees) as one-rule definitions, every nullable tree with <= 2 operators closed off by a "
                "character before / after it (nested and nullable repetition), plus seeded random larger definitions (depth 4, "
                "variables, contexts, `$`, several rules and rule sets); each is expanded by the real "
                "macro and the automata it built (before and after simplification, from every rule "
                "set entry, and every context automaton) are compared with the Antimirov derivative "
                "automaton of the definition by TLC exploring the product (exact for all strings); "
                "each small automaton is additionally compared with the reference automaton of an "
                "equivalent regex (r+ / r r*, commuted |, string / character concatenation); TLC "
                "checks that the declarative semantics (Ends, Open) and the derivative automaton "
                "agree; Stages.tla: the NFA of every definition equals the one the specified Thompson "
                "construction builds (state by state) and the DFA is the subset construction of that NFA "
                "(product exploration); a sample is compiled and run on all inputs of length <= 4, "
                "as is families.arm_family (rules that share a prefix and diverge on overlapping "
                "class atoms -- characters, ranges, sets with holes, `_`, `'b' | _` -- so that one "
                "state has character, range and `_` arms at once with equal and different targets)",
        "samples": [{"definition": progs[7].body(), "dump_states": len(dumps[progs[7].id]["dfa"])}] + fr.samples[:1],
        "tlc_cmd": res.cmd, "exhaustive": True,
        "mismatches_outside_projection": other,
    }
    return out


def artifact_part(out, pid, tier, progs, what, need_bt=True):
    """(D) for the programs a replay check used: automata vs reference (Bisim.tla), index maps,
    and the recorded backtrack analysis vs Backtrack.tla."""
    byid = {p.id: p for p in progs}
    ws, dumps, outs, ok, err = dump_programs(pid + "_art", progs, nb=10)
    pairs = [(p, dumps[p.id], None) for p in progs
             if dumps.get(p.id) and not dumps[p.id].get("panicked") and "renumber" in dumps[p.id]]
    if not pairs:
        return
    res, bad, badmap, seen = bisim_check(pid + "_art", pairs)
    for b_ in bad[:20]:
        bad_to_violation(out, pid, b_, byid, what)
    for m in badmap[:20]:
        prog = byid[m["p"]]
        out.violations.append({
            "key": "indexmap prog=%s" % prog.body().replace("\n", " ").replace("  ", " "),
            "desc": "state renumbering of program %d is inconsistent (injective %s, patterns %s, switch arms %s, inlining %s, simplify as specified %s, renumber as specified %s)" % (
                m["p"], m["inj"], m["pat"], m["sw"], m["inl"], m.get("simp"), m.get("ren")),
            "payload": {"kind": "artifact", "program": prog.to_json(), "src": prog.body(), "indexmap": m}})
    st_res, bad_th, bad_sub, n_st = stages_check(pid + "_art")
    for pid_ in bad_th[:3]:
        out.notes.append("NFA of program %d is not the one Stages.tla (Thompson construction) builds" % pid_)
    for b_ in bad_sub[:3]:
        out.notes.append("DFA of program %d is not the subset construction of its dumped NFA after %s" % (b_["p"], b_["path"]))
    cov = out.coverage
    cov["nfas_equal_to_thompson_spec"] = n_st - len(bad_th)
    cov["subset_product_states"] = st_res.distinct
    cov["subset_disagreements"] = len(bad_sub)
    cov["automata_compared_with_reference"] = len(pairs)
    cov["product_states"] = res.distinct
    cov["states"] = cov.get("states", 0) + res.distinct
    cov["transitions"] = cov.get("transitions", 0) + res.states
    if need_bt:
        bt_part(out, pid, tier, [(p, dumps[p.id]) for p, d, _ in pairs], byid)


def bt_part(out, pid, tier, prog_dumps, byid):
    """Recorded work-list iterations of the real update_backtracks vs Backtrack.tla."""
    from common import run_tlc, BUILD
    recs = []
    for i, (p, d) in enumerate(prog_dumps):
        if d.get("bt_truncated"):
            continue
        dfa = d["dfa_pre"]
        if tier == "quick" and len(dfa) > 120:
            continue
        succ = []     # per state: one target per transition (the analysis pushes one item per transition)
        for si, st in enumerate(dfa):
            ts = [e["t"]["s"] for e in st["chars"]] + [e["t"]["s"] for e in st["ranges"]]
            ts += [e["s"] for e in st["any"] + st["eoi"]]
            succ.append(ts)
        recs.append({"i": p.id, "n": len(dfa), "succ": succ,
                     "acc": [si for si, st in enumerate(dfa) if st["acc"]],
                     "init": [si for si, st in enumerate(dfa) if st["initial"]],
                     "trace": [{"s": e["s"], "b": e["b"], "prev": e["prev"]} for e in d["bt_trace"]],
                     "flags": [1 if st["backtrack"] else 0 for st in dfa]})
    if not recs:
        return
    d_ = os.path.join(BUILD, pid + "_art")
    os.makedirs(d_, exist_ok=True)
    tj = os.path.join(d_, "bt.ndjson")
    with open(tj, "w") as f:
        for r in recs:
            f.write(json.dumps(r, separators=(",", ":")) + "\n")
    res = run_tlc("Trace_Backtrack.tla", "Trace_Backtrack.cfg", env={"VERIF_BT": tj}, workers=8,
                  timeout=1500, tag=pid + "_bttrace")
    if not res.ok:
        raise ToolError("TLC failed on Trace_Backtrack.tla: %s" % res.error)
    acc = {a["i"] for a in res.tagged.get("ACCEPT", [])}
    rej = [r for r in recs if r["i"] not in acc]
    for r in rej[:10]:
        prog = byid[r["i"]]
        out.violations.append({
            "key": "backtrack-analysis prog=%s" % prog.body().replace("\n", " ").replace("  ", " "),
            "desc": "the recorded backtrack analysis of program %d is not a behaviour of Backtrack.tla "
                    "(non-monotone update, missing state, or final flags that differ from reachability)" % r["i"],
            "payload": {"kind": "artifact", "program": prog.to_json(), "src": prog.body(), "recording": r}})
    cov = out.coverage
    cov["backtrack_recordings_validated"] = len(recs) - len(rej)
    cov["backtrack_recordings_rejected"] = len(rej)
    cov["states"] = cov.get("states", 0) + res.distinct
    cov["transitions"] = cov.get("transitions", 0) + res.states
    cov["traces_validated_against_impl"] = cov.get("traces_validated_against_impl", 0) + len(recs) - len(rej)


# ---------------------------------------------------------------------------------------------
# C12: expansion terminates, is deterministic, output compiles
# ---------------------------------------------------------------------------------------------

C12_SCENARIOS = [
    ("two_table_lexers_in_one_module", """
pub mod m {
    lexgen::lexer! { pub LexA -> u8; $$alphabetic+ = 0u8, _ = 1u8, }
    lexgen::lexer! { pub LexB -> u8; $$uppercase+ = 0u8, _ = 1u8, }
}
fn main() { assert_eq!(m::LexA::new("ab1").count(), 2); assert_eq!(m::LexB::new("AB1").count(), 2); }
"""),
    ("three_lexers_with_contexts_and_tables_in_one_module", """
lexgen::lexer! { L1 -> u8; 'a' > $$alphanumeric = 0u8, 'a' = 1u8, $$numeric = 2u8, _ = 3u8, }
lexgen::lexer! { L2 -> u8; 'a' > "bc" = 0u8, 'a' > ('b' | "cd")+ $ = 1u8, $$lowercase = 2u8, _ = 3u8, }
lexgen::lexer! { L3(u32) -> u8; rule Init { $$XID_Start $$XID_Continue* => |lexer| lexer.switch_and_return(L3Rule::S, 0u8), _ = 1u8, } rule S { $$whitespace+, _ => |lexer| lexer.switch_and_return(L3Rule::Init, 2u8), } }
fn main() { assert_eq!(L1::new("a1a-").count(), 4); assert_eq!(L2::new("abc").count(), 3); assert_eq!(L3::new("ab  c").count(), 2); }
"""),
    ("bracket_set_repeating_a_character", """
lexgen::lexer! { L -> u8; ['a' 'a' 'b'] = 0u8, ['c' 'c'-'e' 'c']+ = 1u8, ['x' 'y' 'x' 'y'] # 'y' = 2u8, }
fn main() { let v: Vec<_> = L::new("abccdx").map(|r| r.unwrap().1).collect(); assert_eq!(v, vec![0, 0, 1, 2]); }
"""),
    ("bracket_set_repeating_a_character_as_a_one_character_range", """
lexgen::lexer! { L -> u8; ['a' 'a'-'a' 'b'] = 0u8, ['0'-'0' '5' '0'-'0']+ = 1u8, ['k'-'k' 'j'-'l' 'k' 'k'-'k'] # 'l' = 2u8,
    ['x'-'x' 'x'-'x'] ['y'-'y' 'y'] = 3u8, }
fn main() { let v: Vec<_> = L::new("ab050kjxy").map(|r| r.unwrap().1).collect(); assert_eq!(v, vec![0, 0, 1, 2, 2, 3]); }
"""),
    ("right_contexts_of_any_shape", """
lexgen::lexer! { L -> u8;
    'a' > "bc" = 0u8, 'a' > ('b' 'c'* 'd' | "xy") = 1u8, 'a' > ['b'-'d']+ 'e' = 2u8, 'a' > 'z'? $ = 3u8,
    'a' > _ _ 'q' = 4u8, 'a' > ('m' | 'n' 'o')+ = 5u8, 'a' = 6u8, _ = 7u8, }
fn main() { let v: Vec<_> = L::new("abcaxyaz").map(|r| r.unwrap().1).collect(); assert_eq!(v[0], 0); }
"""),
    ("large_builtins_and_many_rule_sets", """
lexgen::lexer! { L -> u8;
    rule Init { $$alphabetic+ => |lexer| lexer.switch_and_return(LRule::A, 0u8), $$numeric+ = 1u8, $$whitespace, _ = 9u8, }
    rule A { $$alphanumeric => |lexer| lexer.switch_and_return(LRule::B, 2u8), _ => |lexer| lexer.switch_and_return(LRule::Init, 3u8), }
    rule B { ($$uppercase | $$lowercase)* '!' => |lexer| lexer.switch_and_return(LRule::C, 4u8), _ => |lexer| lexer.switch_and_return(LRule::Init, 5u8), }
    rule C { $$XID_Start # ['a'-'z'] = 6u8, _ => |lexer| lexer.switch_and_return(LRule::Init, 7u8), $ = 8u8, }
}
fn main() { assert!(L::new("ab1 cd!E x").count() > 3); }
"""),
]


def big_family(seed, n, base_id):
    from progs import Gen, set_, bi, cat, star, plus, chr_, alt
    import random
    rnd = random.Random(seed)
    out = []
    out += F.random_general(seed, n, base_id, k=2, nsets=(1, 2, 3), nrules=(8, 12, 16, 20), depth=3,
                            p_ctx=0.25, p_eoi=0.15, p_var=0.2, menu_sizes=(1, 2), p_join=0.6)
    # 20-40 rules in one rule set
    g = Gen(seed + 5)
    for i in range(max(2, n // 6)):
        rules = []
        for _ in range(rnd.randrange(20, 41)):
            rules.append(F.inf_rule(g.rule_regex(3), ctx=g.ctx_regex(2) if rnd.random() < 0.2 else None))
        out.append(Program(base_id + 5000 + i, [("Init", rules)], k=2))
    # repeated set members, built-ins
    for i in range(max(2, n // 6)):
        a = rnd.choice([97, 98, 99])
        items = [(a, a), (a, a), (rnd.choice([97, 98, 99, 100]),) * 2, (98, 100)]
        rnd.shuffle(items)
        cls_ = set_(items)
        for it in cls_["items"]:
            # a repeated member may also be written as a one-character range `c-c` (seed S-F46)
            if it["lo"] == it["hi"] and rnd.random() < 0.4:
                it["as_range"] = True
        rules = [F.simple_rule(cat(cls_, star(chr_(120)))),
                 F.simple_rule(plus(bi(rnd.choice(["alphabetic", "numeric", "XID_Continue", "lowercase"])))),
                 F.simple_rule(alt(bi("ascii_digit"), bi("whitespace")))]
        out.append(Program(base_id + 6000 + i, [("Init", rules)], k=2))
    out += F.fixed_mm(base_id + 7000)
    # chains of bracket sets that mix a range and a single character (fixed-width identifiers,
    # digits with separators, ...): two arms lead to the same next state
    for i, nrep in enumerate((8, 10, 12)):
        item = set_([(48, 57), (95, 95)])
        re = item
        for _ in range(nrep - 1):
            re = cat(re, item)
        out.append(Program(base_id + 8000 + i, [("Init", [F.simple_rule(re), F.simple_rule(plus(set_([(97, 122)])))])], k=2))
    return out


def check_C12(tier, seed):
    from common import Workspace, run_tlc, BUILD, REPO
    out = Outcome("C12")
    # A. the worklist algorithm terminates for every processing order; naming scheme is clash-free
    cfg = "MC_Backtrack_small.cfg" if tier == "quick" else "MC_Backtrack.cfg"
    bt = run_tlc("Backtrack.tla", cfg, workers=12, timeout=3000, tag="C12_bt", heap="10g")
    if not bt.ok:
        raise ToolError("Backtrack.tla: " + str(bt.error))
    # self-test of the specification: the analysis as it was on the pinned tree (non-monotone
    # update) must be refuted by the same properties
    pinned = run_tlc("BacktrackPinned.tla", "MC_BacktrackPinned.cfg", workers=4, timeout=600, tag="C12_pinned")
    if pinned.ok or "violated" not in (pinned.error or ""):
        raise ToolError("Backtrack.tla's properties no longer refute the pinned non-monotone variant: %s" % (pinned.error or "no error")[:300])
    nm = run_tlc("MC_Names.tla", "MC_Names.cfg", workers=4, timeout=600, tag="C12_names")
    if not nm.ok:
        raise ToolError("Names.tla: " + str(nm.error))
    # B. expansion only: terminates (watchdog + wall clock), deterministic
    progs = big_family(seed, sizes(tier, 60, 600), 100)
    byid = {p.id: p for p in progs}
    ws, dumps, outs, ok, err = dump_programs("C12", progs, nb=14)
    n_ok = 0
    slowest = 0
    names_rec = []
    for p in progs:
        o = outs.get(p.id)
        key = "expansion prog=%s" % p.body().replace("\n", " ").replace("  ", " ")[:3000]
        hang = os.path.exists(os.path.join(ws.dumps, p.lexer_name() + ".hang"))
        if hang:
            out.violations.append({"key": key, "desc": "macro expansion of program %d did not finish within the watchdog limit (60 s): %s" % (p.id, p.body()[:300]),
                                   "payload": {"kind": "expansion", "program": p.to_json(), "src": p.body(), "what": "hang"}})
            continue
        if o is None:
            out.notes.append("program %d: no outcome (lost when a sibling expansion hung)" % p.id)
            continue
        if o["outcome"] != "ok":
            out.violations.append({"key": key, "desc": "macro expansion of well-formed program %d failed (%s): %s" % (p.id, o["outcome"], o["message"][:200]),
                                   "payload": {"kind": "expansion", "program": p.to_json(), "src": p.body(), "outcome": o}})
            continue
        if not o["same"]:
            out.violations.append({"key": key + " nondeterministic", "desc": "two expansions of program %d differ" % p.id,
                                   "payload": {"kind": "expansion", "program": p.to_json(), "src": p.body(), "what": "nondeterministic"}})
            continue
        if o["millis"] > 30000:
            out.violations.append({"key": key + " slow", "desc": "expansion of program %d took %d ms" % (p.id, o["millis"]),
                                   "payload": {"kind": "expansion", "program": p.to_json(), "src": p.body(), "millis": o["millis"]}})
            continue
        if o["code_len"] > 20_000_000:
            # tens of megabytes of Rust for a definition of a few dozen rules: rustc cannot compile
            # that "within seconds" (and the size grows exponentially with the definition)
            out.violations.append({"key": key + " code size", "desc": "expansion of program %d (%d rules) is %d MB of code: not compilable in practice: %s" % (
                p.id, len(p.rules()), o["code_len"] // 1000000, p.body().replace("\n", " ")[:200]),
                "payload": {"kind": "expansion", "program": p.to_json(), "src": p.body(), "code_len": o["code_len"]}})
            continue
        slowest = max(slowest, o["millis"])
        n_ok += 1
        d = dumps.get(p.id)
        if d:
            ntab = len([x for x in o["items"] if "RANGE_TABLE" in x])
            names_rec.append({"name": p.lexer_name(), "nact": len(p.rules()),
                              "nctx": len(d.get("ctx", [])), "ntab": ntab, "items": o["items"]})
    out.notes = out.notes[:5]
    # names recorded vs the scheme
    names_ok = 0
    if names_rec:
        nj = os.path.join(BUILD, "C12", "names.ndjson")
        with open(nj, "w") as f:
            for r in names_rec:
                f.write(json.dumps(r) + "\n")
        nr = run_tlc("MC_NamesRec.tla", "MC_NamesRec.cfg", env={"VERIF_NAMES": nj}, workers=4, timeout=600, tag="C12_namesrec")
        if not nr.ok:
            raise ToolError("MC_NamesRec: " + str(nr.error))
        okn = {x["name"] for x in nr.tagged.get("NAMESOK", [])}
        names_ok = len(okn)
        drift = [r for r in names_rec if r["name"] not in okn]
        for r in drift[:3]:
            # another clash-free scheme is as good as this one: not an alarm
            out.notes.append("MODEL-DRIFT: module-level items of %s are not the ones Names.tla's scheme gives: %s" % (
                r["name"], [x for x in r["items"] if "ACTION" not in x][:8]))
        # what the property needs, on the recorded names themselves: all these lexers could be
        # declared in one module, so no identifier may be declared by two of them (or twice by one)
        owner = {}
        for r in names_rec:
            idents = [x.split()[-1] for x in r["items"]]
            dup = sorted({x for x in idents if idents.count(x) > 1})
            clash = sorted({x for x in idents if x in owner and owner[x] != r["name"]})
            for x in idents:
                owner.setdefault(x, r["name"])
            if (dup or clash) and len([v for v in out.violations if v["key"].startswith("names")]) < 3:
                out.violations.append({
                    "key": "names clash %s" % (dup or clash)[:4],
                    "desc": "module-level item(s) %s of lexer %s are declared %s: several lexers in one module cannot compile" % (
                        (dup or clash)[:4], r["name"], "twice by its own expansion" if dup else "by the expansion of lexer %s too" % owner[clash[0]]),
                    "payload": {"kind": "names", "recorded": r}})
    # every definition that Defs.tla calls well-formed (lets at top level and inside rule sets, the
    # same local name in different rule sets, lazily resolved variables, ...) must expand
    wf_cases = []
    wf_states = 0
    for cfg_ in (("MC_Defs_a.cfg",) if tier == "quick" else ("MC_Defs_a.cfg", "MC_Defs_b.cfg")):
        dt = run_tlc("Defs.tla", cfg_, workers=8, timeout=1500, tag="C12_defs" + cfg_[8])
        if not dt.ok:
            raise ToolError("Defs.tla: " + str(dt.error))
        wf_cases += [c for c in dt.tagged.get("DEF", []) if c["wf"]]
        wf_states += dt.distinct
    seen_ = {}
    for c in wf_cases:
        seen_[json.dumps(c["items"], sort_keys=True)] = c
    wf_cases = list(seen_.values())
    invs_ = [("W%d" % i, "LW%d -> u8; %s" % (i, def_text(c["items"]))) for i, c in enumerate(wf_cases)]
    wsw, wout, wok, werr = verif_crates("C12w", invs_)
    n_wf_ok = 0
    for i, c in enumerate(wf_cases):
        o = wout.get("W%d" % i)
        text = def_text(c["items"])
        if o is None or o["outcome"] != "ok":
            if len([v for v in out.violations if v["key"].startswith("well-formed definition")]) < 10:
                out.violations.append({"key": "well-formed definition: %s" % text,
                                       "desc": "well-formed definition does not expand (%s): `%s` :: %s" % (
                                           o and o["outcome"], text, (o and o.get("message", "") or "")[:150]),
                                       "payload": {"kind": "expansion", "text": "L1 -> u8; " + text, "outcome": o}})
        else:
            n_wf_ok += 1
    # the recorded backtrack analyses terminate for the right reason
    bt_part(out, "C12", tier, [(p, dumps[p.id]) for p in progs
                               if dumps.get(p.id) and not dumps[p.id].get("panicked") and "dfa_pre" in dumps[p.id]], byid)
    # C. real compilation of the scenarios the property lists, and of a sample of the family
    ws2 = Workspace("C12x")
    deps = 'lexgen = { path = "%s/crates/lexgen" }\nlexgen_util = { path = "%s/crates/lexgen_util" }\n' % (REPO, REPO)
    for name, text in C12_SCENARIOS:
        ws2.add_crate("c12_" + name, "#![allow(dead_code, unused)]\n" + text, deps=deps)
    ok2, err2 = ws2.build(timeout=2400, keep_going=True)
    n_sc = 0
    for name, text in C12_SCENARIOS:
        crate = "c12_" + name
        failed = ("could not compile `%s`" % crate) in err2
        binp = ws2.binary(crate)
        if failed or not os.path.exists(binp):
            import re as _re
            msgs = _re.findall(r"%s/src/main\.rs:\d+:\d+: (error[^\n]*)" % crate, err2)
            out.violations.append({"key": "scenario %s" % name,
                                   "desc": "scenario `%s` does not compile: %s" % (name, "; ".join(msgs[:3])[:400]),
                                   "payload": {"kind": "scenario", "name": name, "text": text, "errors": msgs[:10]}})
            continue
        import subprocess
        cp = subprocess.run(["timeout", "60", binp], capture_output=True, text=True)
        if cp.returncode != 0:
            out.violations.append({"key": "scenario %s runs" % name,
                                   "desc": "scenario `%s` compiled but its smoke run failed (rc=%d): %s" % (name, cp.returncode, cp.stderr[-300:]),
                                   "payload": {"kind": "scenario", "name": name, "text": text, "stderr": cp.stderr[-2000:]}})
            continue
        n_sc += 1
    sample = [p for p in progs if not any(r_["re"]["k"] == "bi" or "bi" in json.dumps(r_["re"]) for r_ in p.rules())]
    import random
    sample = random.Random(seed).sample(sample, min(len(sample), sizes(tier, 16, 120)))
    from pipeline import build_family
    try:
        ws3, batches, failures = build_family("C12", sample, expand_timeout=60)
    except ToolError as ex:
        failures = [{"program": -1, "kind": "build", "message": str(ex)[:500]}]
    for f_ in failures:
        p = byid.get(f_["program"])
        out.violations.append({"key": "compile prog=%s" % (p.body().replace("\n", " ")[:3000] if p else "?"),
                               "desc": "generated code of program %s does not build (%s): %s" % (f_["program"], f_["kind"], f_["message"][:300]),
                               "payload": {"kind": "compile", "program": p.to_json() if p else None, "src": p.body() if p else None, "failure": f_}})
    cov = out.coverage
    cov.update({
        "states": cov.get("states", 0) + bt.distinct + nm.distinct,
        "transitions": cov.get("transitions", 0) + bt.states + nm.states,
        "traces_validated_against_impl": cov.get("traces_validated_against_impl", 0) + n_ok + names_ok,
        "definitions_expanded_twice": len(progs), "expansions_ok": n_ok, "slowest_expansion_ms": slowest,
        "item_name_sets_matching_scheme": names_ok,
        "pinned_variant_refuted_by_spec": True,
        "well_formed_definitions_of_Defs_tla_expanded": n_wf_ok,
        "scenarios_compiled_and_run": n_sc, "scenarios": [n_ for n_, _ in C12_SCENARIOS],
        "family_sample_compiled_by_rustc": len(sample) - len(failures),
        "rule": "Backtrack.tla: termination (liveness under weak fairness), monotonicity and correctness "
                "of the work-list analysis for every graph with <= %d states and every processing order; "
                "Names.tla: item names of two lexers are disjoint; every definition that Defs.tla enumerates as "
                "well-formed expands; then seeded definitions (8-40 rules, "
                "1-3 rule sets, contexts, `$`, variables, repeated bracket-set members, big built-ins, the "
                "property's own examples) are expanded twice by the real macro under a watchdog "
                "(outcome ok, identical token streams, < 30 s), the recorded work-list iterations are "
                "validated against Backtrack.tla; the recorded module-level item names of all these lexers "
                "must be pairwise disjoint and distinct (they could all be declared in one module) - the "
                "comparison with Names.tla's particular scheme is a drift note only; the scenarios "
                "the property lists (several table-using lexers in one module, contexts of any shape, "
                "repeated set members - also as one-character ranges -, large built-ins with many rule sets) and a sample of the family "
                "are compiled by rustc and smoke-run" % (2 if tier == "quick" else 3),
        "samples": [{"definition": progs[0].body()[:600]}],
        "tlc_cmd": bt.cmd, "exhaustive": False,
    })
    return out


# ---------------------------------------------------------------------------------------------
# --replay
# ---------------------------------------------------------------------------------------------

PROJ = {}


def replay(pid, path):
    """Re-execute the case recorded in a replay file against the current tree."""
    from pipeline import build_family, tlc_expected, run_requests
    with open(path) as f:
        pl = json.load(f)
    out = Outcome(pid)
    kind = pl.get("kind")
    if kind == "replay":
        prog = Program.from_json(pl["program"])
        prog.inputs = [pl["input"]]
        prog.guides = [list(pl["script"]) + [0] * 8]
        tag = pid + "_replay"
        ws, batches, failures = build_family(tag, [prog])
        if failures:
            out.violations.append({"key": "replay build", "desc": "program no longer builds: %s" % failures, "payload": pl})
            return out
        res = tlc_expected(tag, [prog], workers=2, timeout=600)
        if not res.ok:
            raise ToolError("TLC: " + str(res.error))
        rules = prog.rules()
        exp = None
        for rp in res.tagged.get("REPLAY", []):
            ok_, j = True, 0
            for e in rp["ev"]:
                if e["k"] == "A":
                    want = (pl["script"][j] if j < len(pl["script"]) else 0) % len(rules[e["r"]]["menu"])
                    if e["ch"] != want:
                        ok_ = False
                        break
                    j += 1
            if ok_:
                exp = rp["ev"]
                break
        if exp is None:
            raise ToolError("no specification behaviour follows the recorded script")
        req = {"p": prog.id, "inp": pl["input"], "script": pl["script"], "ctor": pl.get("ctor", 0),
               "clone_at": pl.get("clone_at", -1), "sched": pl.get("sched", []), "ev": exp}
        if pl.get("why"):       # C09-style: free run judged on its own
            req.pop("ev")
            req["notx"] = True
        results = run_requests(ws, batches, [req], tag)
        r = results[0]
        if pl.get("why"):
            why = c09_reason(strip_lx(r["ev"]), len(pl["input"]), True, total_bytes=sum(utf8_len(c_) for c_ in pl["input"]))
            if why:
                out.violations.append({"key": "replay", "desc": "still violated: %s" % why, "payload": dict(pl, actual=r["ev"][:200])})
            return out
        if r is None:
            print("replay: the real lexer now produces the expected trace")
            return out
        act = strip_lx(r["ev"])
        proj = PROJ.get(pid, lambda evs: evs)
        if pl.get("clone_at", -1) >= 0 or pid in ("C14", "C15"):
            differs = True
        else:
            pe, pa = project_pair(proj, exp, act, prog, pl["input"])
            differs = pe != pa
        if differs:
            out.violations.append({"key": "replay", "desc": "still violated: expected %s, real lexer gave %s" % (
                json.dumps(exp)[:300], json.dumps(act)[:300]), "payload": dict(pl, expected=exp, actual=act)})
        else:
            print("replay: differs from the reference only outside this property's projection")
        return out
    if kind == "rangemap":
        from common import Workspace, run_parallel, BUILD, HARNESS
        ws = Workspace(pid + "_replay")
        ws.add_crate("c11r_rangemap", RM_MAIN % (REPO_, HARNESS))
        ok, err = ws.build()
        if not ok:
            raise ToolError(err[-1000:])
        d = os.path.join(BUILD, pid + "_replay")
        tf, rf = os.path.join(d, "t.ndjson"), os.path.join(d, "r.ndjson")
        with open(tf, "w") as f:
            f.write(json.dumps(pl["transition"]) + "\n")
        run_parallel([[ws.binary("c11r_rangemap"), tf, rf]])
        with open(rf) as f:
            lines = [json.loads(x) for x in f]
        bad = [x for x in lines if not x.get("done")]
        if bad:
            t = pl["transition"]
            act = bad[0].get("actual")
            pts = list(range(0, 8))
            if act is None or not well_formed(act) or den_points(act, pts) != den_points(t["after"], pts):
                out.violations.append({"key": "replay", "desc": "still violated: %s" % json.dumps(bad[0])[:300], "payload": pl})
        return out
    if kind in ("definition", "syntax", "scoping", "expansion"):
        text = pl.get("text")
        if text is None and pl.get("program"):
            prog = Program.from_json(pl["program"])
            text = "%s(St) -> Tok; type Error = UErr; %s" % (prog.lexer_name(), prog.body())
        elif kind == "syntax":
            text = "L1 -> u8; rule Init { %s = 0u8, }" % text
        elif not text.lstrip().startswith("L"):
            text = "L1 -> u8; " + text
        ws, outcomes, ok, err = verif_crates(pid + "_replay", [("V1", text)], nb=1)
        print("replay: outcome of the real macro on `%s`: %s" % (text[:200], outcomes.get("V1")))
        o = outcomes.get("V1")
        if kind == "definition" and (o is None or o["outcome"] == "ok"):
            out.violations.append({"key": "replay", "desc": "still accepted: " + text[:300], "payload": pl})
        if kind == "expansion" and (o is None or o["outcome"] != "ok" or not o["same"]):
            out.violations.append({"key": "replay", "desc": "still failing: %s" % o, "payload": pl})
        if kind == "syntax":
            d = ws.dump("L1")
            got = ast_re(d.get("ast", "")) if d else None
            if got != pl.get("want"):
                out.violations.append({"key": "replay", "desc": "still read as %s, not %s" % (got, pl.get("want")), "payload": pl})
        return out
    # other kinds: re-run the check that produced it (the case is part of its fixed family)
    print("replay: kind %r is re-executed by running the quick check again" % kind)
    return CHECKS[pid]("quick", SEED)


def setup():
    """Warm the cargo target directory (dependencies, lexgen with hooks) and check the tools."""
    import subprocess
    from pipeline import build_family
    progs = F.fixed_mm(1)[:1]
    ws, batches, failures = build_family("setup", progs)
    if failures:
        raise ToolError("setup: the smoke-test lexer failed to build: %s" % failures)
    cp = subprocess.run(["java", "-version"], capture_output=True, text=True)
    if cp.returncode != 0:
        raise ToolError("java not available")


PROJ.update({"C01": proj_tokens, "C02": lambda evs: proj_tokens(evs, stop_at_invalid=False),
             "C03": proj_c03, "C04": proj_c04, "C05": proj_c05, "C06": proj_c06_pair, "C07": proj_c07,
             "C08": proj_c08, "C10": proj_c10, "C11": lambda evs: proj_tokens(evs, stop_at_invalid=False)})

CHECKS = {
    "C01": check_C01,
    "C02": check_C02,
    "C03": check_C03,
    "C04": check_C04,
    "C05": check_C05,
    "C06": check_C06,
    "C07": check_C07,
    "C08": check_C08,
    "C09": check_C09,
    "C10": check_C10,
    "C11": check_C11,
    "C12": check_C12,
    "C13": check_C13,
    "C14": check_C14,
    "C15": check_C15,
    "C16": check_C16,
    "C17": check_C17,
    "C18": check_C18,
}

"""Spec -> implementation replay: TLC enumerates every behaviour of the reference specification
for a family of programs; each behaviour is replayed into the real generated lexer."""

import json
import os
import re
import threading
import time

from common import (BUILD, ToolError, Workspace, ensure_dir, log, run_parallel, run_tlc)
from progs import generated_rs


class FamilyResult:
    def __init__(self):
        self.programs = 0
        self.tlc = None
        self.behaviours = 0
        self.runs = 0
        self.ok_runs = 0
        self.mismatches = []      # dicts: req (with expected), actual
        self.build_failures = []  # dicts: program id, kind (compile|panic|hang), message
        self.hangs = []           # dicts: req  (run-time hang)
        self.samples = []
        self.build_wall = 0.0
        self.run_wall = 0.0
        self.dumps = {}
        self.ws = None
        self.batches = []
        self.event_coverage = {}


def split_batches(programs, nb):
    batches = [[] for _ in range(nb)]
    for i, p in enumerate(programs):
        batches[i % nb].append(p)
    return [b for b in batches if b]


def module_ranges(text):
    """line ranges (1-based, inclusive) of `pub mod p<id> {` modules in generated.rs"""
    ranges = []
    cur = None
    for ln, line in enumerate(text.split("\n"), 1):
        m = re.match(r"^pub mod p(\d+) \{", line)
        if m:
            if cur:
                ranges.append((cur[0], cur[1], ln - 1))
            cur = (int(m.group(1)), ln)
        elif line.startswith("pub fn registry") and cur:
            ranges.append((cur[0], cur[1], ln - 1))
            cur = None
    return ranges


def attribute_failures(ws, batches, texts, stderr):
    """Map cargo diagnostics to program ids. Returns {pid: (kind, message)}."""
    out = {}
    for name, batch, text in zip(ws.crates, batches, texts):
        ranges = module_ranges(text)
        for m in re.finditer(r"^(?:\S*/)?%s/src/generated\.rs:(\d+):\d+: (error[^\n]*)" % re.escape(name),
                             stderr, re.M):
            ln = int(m.group(1))
            msg = m.group(2)
            for pid, lo, hi in ranges:
                if lo <= ln <= hi and pid not in out:
                    kind = "panic" if "proc macro panicked" in msg or "proc-macro" in msg else "compile"
                    out[pid] = (kind, msg)
    # hangs: the watchdog leaves <LexerName>.hang
    for f in os.listdir(ws.dumps):
        if f.endswith(".hang"):
            pid = int(f[1:-5])
            out[pid] = ("hang", "macro expansion exceeded the watchdog timeout")
    return out


def build_family(tag, programs, nb=None, opt_level=0, expand_timeout=60, max_rounds=6, **kw):
    """Compile the programs into batch binaries. Programs whose expansion panics, hangs or does
    not compile are dropped (and reported); the rest is rebuilt."""
    failures = []
    progs = list(programs)
    if nb is None:
        nb = max(1, min(16, (len(progs) + 5) // 6))
    for rnd in range(max_rounds):
        ws = Workspace(tag, opt_level=opt_level)
        batches = split_batches(progs, nb)
        texts = []
        for i, b in enumerate(batches):
            text = generated_rs(b, **kw)
            texts.append(text)
            ws.add_batch(i, text)
        ok, stderr = ws.build(expand_timeout=expand_timeout)
        if ok:
            return ws, batches, failures
        bad = attribute_failures(ws, batches, texts, stderr)
        if not bad:
            raise ToolError("cargo build failed and no program could be blamed:\n" + stderr[-3000:])
        for pid, (kind, msg) in bad.items():
            failures.append({"program": pid, "kind": kind, "message": msg})
        progs = [p for p in progs if p.id not in bad]
        if not progs:
            return None, [], failures
    raise ToolError("build did not converge after dropping failing programs")


def tlc_expected(tag, programs, workers=8, timeout=1500, cfg="MC_RefLexer.cfg", builtins=None):
    d = ensure_dir(os.path.join(BUILD, tag))
    pj = os.path.join(d, "progs.json")
    with open(pj, "w") as f:
        json.dump([p.to_json() for p in programs], f)
    env = {"VERIF_PROGS": pj}
    if builtins:
        env["VERIF_BUILTINS"] = builtins
    res = run_tlc("MC_RefLexer.tla", cfg, env=env, workers=workers, timeout=timeout, tag=tag)
    return res


def run_batches(cmd_specs, timeout=1200, max_crashes=6):
    """cmd_specs: list of (binary, request path, result path, [requests of that batch]).  Runs
    all batches in parallel; a batch whose process died without finishing (a stack overflow or an
    abort in the code under test is data, not a tool error) is run again without the request it
    died on, which gets a synthetic `P` (process died) result.  Returns per batch
    (rc, [result dicts], done-record or None)."""
    cmds = [[b, rq, rs] for b, rq, rs, _ in cmd_specs]
    for _, _, rs, _ in cmd_specs:
        for f_ in (rs, rs + ".cur"):
            if os.path.exists(f_):
                os.remove(f_)
    rcs = run_parallel(cmds, timeout=timeout)

    def read(rs):
        lines, done = [], None
        if os.path.exists(rs):
            with open(rs) as f:
                for line in f:
                    try:
                        r = json.loads(line)
                    except ValueError:
                        continue    # a line cut short by the crash
                    if r.get("done"):
                        done = r
                    else:
                        lines.append(r)
        return lines, done

    out = []
    for rc, (binary, rq, rs, batch_reqs) in zip(rcs, cmd_specs):
        lines, done = read(rs)
        synth = []
        pending = list(batch_reqs)
        crashes = 0
        while done is None and rc != 98:
            cur = None
            try:
                with open(rs + ".cur") as f:
                    cur = int(f.read().strip())
            except (OSError, ValueError):
                pass
            if cur is None or crashes >= max_crashes or cur not in {r["i"] for r in pending}:
                raise ToolError("batch runner %s died (rc=%s) without finishing" % (binary, rc))
            crashes += 1
            synth.append({"i": cur, "ok": False, "why": "abort",
                          "ev": [{"k": "P", "msg": "the process running the lexer died (rc=%s): stack overflow or abort" % rc}]})
            pending = [r for r in pending if r["i"] != cur]
            with open(rq, "w") as f:
                for r in pending:
                    f.write(json.dumps(r, separators=(",", ":")))
                    f.write("\n")
            for f_ in (rs, rs + ".cur"):
                if os.path.exists(f_):
                    os.remove(f_)
            rc = run_parallel([[binary, rq, rs]], timeout=timeout)[0]
            lines, done = read(rs)
        out.append((rc, lines + synth, done))
    return out


def replay_family(tag, programs, ctors=(0,), clone_points=False, workers=8, opt_level=0,
                  tlc_timeout=1500, builtins=None, keep_samples=3, nb=None, **kw):
    """TLC: all behaviours of RefLexer for `programs`; harness: replay each on the real lexers."""
    fr = FamilyResult()
    fr.programs = len(programs)
    byid = {p.id: p for p in programs}

    build_out = {}

    def do_build():
        try:
            build_out["v"] = build_family(tag, programs, nb=nb, opt_level=opt_level, **kw)
        except Exception as ex:  # noqa
            build_out["e"] = ex

    th = threading.Thread(target=do_build)
    t0 = time.time()
    th.start()
    tlc = tlc_expected(tag, programs, workers=workers, timeout=tlc_timeout, builtins=builtins)
    th.join()
    fr.build_wall = time.time() - t0
    if "e" in build_out:
        raise build_out["e"]
    ws, batches, failures = build_out["v"]
    fr.build_failures = failures
    fr.tlc = tlc
    if not tlc.ok:
        raise ToolError("TLC reported an error on the reference specification (tag %s):\n%s"
                        % (tag, tlc.error))
    replays = tlc.tagged.get("REPLAY", [])
    fr.behaviours = len(replays)
    cov = {"A": 0, "T": 0, "I": 0, "C": 0, "N": 0, "rewinds_or_short": 0, "after_error": 0,
           "eoi_tokens": 0, "switches": 0}
    for rp in replays:
        seen_err = False
        for e in rp["ev"]:
            k = e["k"]
            if k in cov:
                cov[k] += 1
            if k in "AT" and seen_err:
                cov["after_error"] += 1
                seen_err = False
            if k == "I":
                seen_err = True
    fr.event_coverage = cov
    # RefLexer is deterministic: one behaviour per (program, input, decision history)
    keys = set()
    for rp in replays:
        k = (rp["p"], tuple(rp["inp"]), tuple(rp["script"]))
        if k in keys:
            raise ToolError("RefLexer is not deterministic: two behaviours for program %s input %s decisions %s"
                            % (rp["p"], rp["inp"], rp["script"]))
        keys.add(k)
    fr.deterministic_behaviours = len(keys)
    if ws is None:
        return fr
    failed_ids = {f["program"] for f in failures}

    # Requests
    reqs = []
    for rp in replays:
        if rp["p"] in failed_ids:
            continue
        n_items = sum(1 for e in rp["ev"] if e["k"] in "TICN")
        for ctor in ctors:
            base = {"p": rp["p"], "inp": rp["inp"], "script": rp["script"], "ctor": ctor,
                    "clone_at": -1, "sched": [], "ev": rp["ev"]}
            reqs.append(base)
            if clone_points:
                first_none = next(i for i, e in enumerate([e for e in rp["ev"] if e["k"] in "TICN"])
                                  if e["k"] == "N")
                for k in range(0, first_none + 2):
                    for sched in ([], [1] * 8, [0, 1, 1, 0]):
                        r = dict(base)
                        r["clone_at"] = k
                        r["sched"] = sched
                        reqs.append(r)
    for i, r in enumerate(reqs):
        r["i"] = i
    fr.runs = len(reqs)

    d = os.path.join(BUILD, tag)
    specs = []
    for bi, (name, batch) in enumerate(zip(ws.crates, batches)):
        ids = {p.id for p in batch}
        rq = os.path.join(d, "req_%d.ndjson" % bi)
        rs = os.path.join(d, "res_%d.ndjson" % bi)
        mine = [r for r in reqs if r["p"] in ids]
        with open(rq, "w") as f:
            for r in mine:
                f.write(json.dumps(r, separators=(",", ":")))
                f.write("\n")
        specs.append((ws.binary(name), rq, rs, mine))
    t1 = time.time()
    batch_results = run_batches(specs, timeout=1200)
    fr.run_wall = time.time() - t1

    for rc, lines, done in batch_results:
        if done is not None:
            fr.ok_runs += done["ok"]
        for r in lines:
            req = reqs[r["i"]]
            if r.get("why") == "hang":
                fr.hangs.append({"req": req})
            fr.mismatches.append({"req": req, "actual": r["ev"]})
        # rc == 98: run-time hang, already recorded; the remaining requests of that batch are lost
    for rp in replays[:keep_samples]:
        fr.samples.append({"program": byid[rp["p"]].body(), "input": rp["inp"],
                           "script": rp["script"], "expected_events": rp["ev"]})
    fr.ws = ws
    fr.batches = batches
    return fr


def run_requests(ws, batches, reqs, tag, timeout=1200):
    """Run requests (dicts with p, inp, ...) on the batch binaries; returns list of result dicts
    in request order (None where the runner produced nothing)."""
    d = os.path.join(BUILD, tag)
    for i, r in enumerate(reqs):
        r["i"] = i
    specs = []
    for bi, (name, batch) in enumerate(zip(ws.crates, batches)):
        ids = {p.id for p in batch}
        rq = os.path.join(d, "freq_%d.ndjson" % bi)
        rs = os.path.join(d, "fres_%d.ndjson" % bi)
        mine = [r for r in reqs if r["p"] in ids]
        with open(rq, "w") as f:
            for r in mine:
                f.write(json.dumps(r, separators=(",", ":")))
                f.write("\n")
        specs.append((ws.binary(name), rq, rs, mine))
    results = [None] * len(reqs)
    for rc, lines, done in run_batches(specs, timeout=timeout):
        for r in lines:
            results[r["i"]] = r
    return results


def validate_traces(tag, programs, runs, workers=8, timeout=1500):
    """Implementation -> specification: TLC accepts each recorded run only if it is a behaviour
    of RefLexer (Trace_RefLexer.tla).  runs: dicts with i, p, inp, ev.  Returns (tlc result,
    set of accepted run indices)."""
    d = ensure_dir(os.path.join(BUILD, tag))
    pj = os.path.join(d, "tprogs.json")
    with open(pj, "w") as f:
        json.dump([p.to_json() for p in programs], f)
    tj = os.path.join(d, "trace.ndjson")
    with open(tj, "w") as f:
        for r in runs:
            f.write(json.dumps({"i": r["i"], "p": r["p"], "inp": r["inp"], "ev": r["ev"]},
                               separators=(",", ":")))
            f.write("\n")
    res = run_tlc("Trace_RefLexer.tla", "Trace_RefLexer.cfg",
                  env={"VERIF_PROGS": pj, "VERIF_TRACE": tj}, workers=workers, timeout=timeout,
                  tag=tag + "_trace")
    if not res.ok:
        raise ToolError("TLC failed on the trace specification (%s):\n%s" % (tag, res.error))
    accepted = {a["i"] for a in res.tagged.get("ACCEPT", [])}
    return res, accepted


def validate_fine(tag, runs, workers=8, timeout=1500):
    """Fine-grained trace validation: every recorded library operation of every run must be an
    action of LexUtil.tla.  runs: dicts with i, inp, fine.  Returns (tlc, ok: {i: lead or None},
    rejected: {i: info})."""
    d = ensure_dir(os.path.join(BUILD, tag))
    fj = os.path.join(d, "fine.ndjson")
    with open(fj, "w") as f:
        for r in runs:
            f.write(json.dumps({"i": r["i"], "inp": r["inp"], "fine": r["fine"]}, separators=(",", ":")))
            f.write("\n")
    res = run_tlc("LexUtil.tla", "LexUtil.cfg", env={"VERIF_FINE": fj}, workers=workers, timeout=timeout,
                  tag=tag + "_fine")
    if not res.ok:
        raise ToolError("TLC failed on LexUtil.tla (%s):\n%s" % (tag, res.error))
    ok = {}
    for a in res.tagged.get("FINEOK", []):
        ok[a["i"]] = a["lead"][0] if a["lead"] else None
    rej = {a["i"]: a for a in res.tagged.get("FINEREJ", [])}
    return res, ok, rej


def validate_machine(tag, pairs, runs, workers=8, timeout=1500):
    """Fine-grained recordings against Machine.tla: the generated next() as a machine over the
    automaton the macro really compiled.  pairs: list of (program json, dump); runs: dicts with
    i, p, inp, script, fine.  Returns (tlc, accepted ids, rejected {i: info})."""
    d = ensure_dir(os.path.join(BUILD, tag))
    mj = os.path.join(d, "machine.json")
    with open(mj, "w") as f:
        json.dump({"pairs": [{"prog": pj, "dump": {k: dump[k] for k in ("dfa", "renumber", "switch_arms", "entry")}}
                             for pj, dump in pairs],
                   "runs": [{"i": r["i"], "p": r["p"], "inp": r["inp"], "script": r["script"], "fine": r["fine"]}
                            for r in runs]}, f)
    res = run_tlc("Machine.tla", "Machine.cfg", env={"VERIF_MACHINE": mj}, workers=workers, timeout=timeout,
                  tag=tag + "_machine")
    if not res.ok:
        raise ToolError("TLC failed on Machine.tla (%s):\n%s" % (tag, res.error))
    ok = {a["i"] for a in res.tagged.get("MACHOK", [])}
    rej = {a["i"]: a for a in res.tagged.get("MACHREJ", [])}
    return res, ok, rej

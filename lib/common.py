"""Paths, subprocess helpers, TLC runner, cargo workspace builder shared by all checks."""

import json
import os
import re
import shutil
import subprocess
import sys
import time

VERIF = os.path.dirname(os.path.dirname(os.path.abspath(__file__)))
REPO = os.environ.get("VERIF_REPO", "/repo")
BUILD = os.path.join(VERIF, "build")
SPEC = os.path.join(VERIF, "spec")
HARNESS = os.path.join(VERIF, "harness")
TARGET = os.path.join(BUILD, "target")
NCPU = os.cpu_count() or 4


class ToolError(Exception):
    """Our own tooling failed (exit code 2), as opposed to the code under test misbehaving."""


def log(*a):
    print(*a, file=sys.stderr, flush=True)


def ensure_dir(d, clean=False):
    if clean and os.path.isdir(d):
        shutil.rmtree(d)
    os.makedirs(d, exist_ok=True)
    return d


def repo_tree_id():
    try:
        head = subprocess.run(["git", "-C", REPO, "rev-parse", "--short", "HEAD"],
                              capture_output=True, text=True).stdout.strip()
        dirty = subprocess.run(["git", "-C", REPO, "status", "--porcelain"],
                               capture_output=True, text=True).stdout.strip()
        return head + ("+dirty" if dirty else "")
    except Exception:
        return "unknown"

# ---------------------------------------------------------------------------------------------
# TLC
# ---------------------------------------------------------------------------------------------

REPLAY_RE = re.compile(r'^<<"REPLAY", "(.*)">>$')
TAGGED_RE = re.compile(r'^<<"([A-Z_]+)", "(.*)">>$')


class TlcResult:
    def __init__(self):
        self.states = 0
        self.distinct = 0
        self.depth = 0
        self.ok = False
        self.error = None          # text of the first TLC error, if any
        self.tagged = {}           # tag -> list of parsed JSON values printed by the spec
        self.raw_tail = ""
        self.wall = 0.0
        self.coverage = {}
        self.cmd = ""


def run_tlc(module, cfg, env=None, workers=8, timeout=1800, tag="tlc", simulate=None,
            depth_first=False, extra=(), heap="6g", cwd=SPEC, keep_output=None):
    """Run TLC on spec/<module>.tla with spec/<cfg>.  Lines the spec prints as
    <<"TAG", "<json>">> are collected in result.tagged[TAG]."""
    meta = ensure_dir(os.path.join(BUILD, "tlc", tag), clean=True)
    cmd = ["java", "-XX:+UseParallelGC", "-Xmx" + heap, "-Xss512m"]
    if depth_first:
        cmd.append("-Dtlc2.tool.queue.IStateQueue=StateDeque")
    cmd += ["-cp", "/opt/veriftools/tla/tla2tools.jar:/opt/veriftools/tla/CommunityModules-deps.jar",
            "tlc2.TLC", "-workers", str(workers), "-metadir", meta, "-cleanup", "-noGenerateSpecTE",
            "-config", cfg]
    if simulate:
        cmd += ["-simulate", simulate]
    cmd += list(extra)
    cmd.append(module)
    e = dict(os.environ)
    e.pop("JAVA_TOOL_OPTIONS", None)
    if env:
        e.update({k: str(v) for k, v in env.items()})
    res = TlcResult()
    res.cmd = " ".join(cmd)
    t0 = time.time()
    out_path = keep_output or os.path.join(meta, "out.txt")
    with open(out_path, "w") as fo:
        try:
            cp = subprocess.run(["timeout", str(timeout)] + cmd, cwd=cwd, env=e, stdout=fo,
                                stderr=subprocess.STDOUT)
        except Exception as ex:
            raise ToolError("cannot run TLC: %s" % ex)
    res.wall = time.time() - t0
    err_lines = []
    in_err = False
    tail = []
    with open(out_path) as fi:
        for line in fi:
            line = line.rstrip("\n")
            m = TAGGED_RE.match(line)
            if m:
                try:
                    val = json.loads(m.group(2).replace('\\"', '"').replace("\\\\", "\\"))
                except Exception as ex:
                    raise ToolError("bad tagged line from TLC: %s (%s)" % (line[:200], ex))
                res.tagged.setdefault(m.group(1), []).append(val)
                continue
            tail.append(line)
            if len(tail) > 60:
                tail.pop(0)
            m = re.match(r"^(\d+) states generated, (\d+) distinct states found", line)
            if m:
                res.states = int(m.group(1))
                res.distinct = int(m.group(2))
            m = re.match(r"^The depth of the complete state graph search is (\d+)", line)
            if m:
                res.depth = int(m.group(1))
            if line.startswith("Model checking completed. No error has been found."):
                res.ok = True
            if line.startswith("Error:"):
                in_err = True
            if in_err and len(err_lines) < 80:
                err_lines.append(line)
    res.raw_tail = "\n".join(tail)
    if cp.returncode == 124:
        raise ToolError("TLC timed out after %ss (%s)" % (timeout, tag))
    if simulate and cp.returncode == 0 and not err_lines:
        res.ok = True
    if err_lines:
        res.error = "\n".join(err_lines)
        res.ok = False
    if not res.ok and res.error is None:
        res.error = "TLC exited with %d:\n%s" % (cp.returncode, res.raw_tail)
    return res

# ---------------------------------------------------------------------------------------------
# Cargo workspace of batch binaries
# ---------------------------------------------------------------------------------------------

CONFIG_TOML = """[net]
offline = true

[build]
target-dir = "%s"
rustflags = ["--cfg", "lexgen_verif", "--check-cfg", "cfg(lexgen_verif)"]

[profile.dev]
debug = 0
opt-level = %d
incremental = false
"""


def write_if_changed(path, text):
    try:
        with open(path) as f:
            if f.read() == text:
                return False
    except FileNotFoundError:
        pass
    with open(path, "w") as f:
        f.write(text)
    return True


class Workspace:
    """A cargo workspace under build/<tag>/ws with one binary crate per batch of programs."""

    def __init__(self, tag, opt_level=0):
        self.tag = tag
        self.root = ensure_dir(os.path.join(BUILD, tag, "ws"))
        self.dumps = ensure_dir(os.path.join(BUILD, tag, "dumps"), clean=True)
        self.opt_level = opt_level
        self.crates = []       # (crate name, kind)
        ensure_dir(os.path.join(self.root, ".cargo"))
        write_if_changed(os.path.join(self.root, ".cargo", "config.toml"),
                         CONFIG_TOML % (TARGET, opt_level))
        lock = os.path.join(self.root, "Cargo.lock")
        if not os.path.exists(lock):
            # the repository's lock file pins the versions that are in the offline cargo cache; it
            # is untracked in /repo, so a copy is kept with the harness
            src = os.path.join(REPO, "Cargo.lock")
            if not os.path.exists(src):
                src = os.path.join(HARNESS, "Cargo.lock.seed")
            shutil.copy(src, lock)

    def crate_dir(self, name):
        return os.path.join(self.root, name)

    def add_batch(self, idx, generated_rs, main="main_batch.rs", extra_deps=""):
        name = "%s_b%d" % (self.tag.lower(), idx)
        d = ensure_dir(os.path.join(self.crate_dir(name), "src"))
        write_if_changed(os.path.join(self.crate_dir(name), "Cargo.toml"), """[package]
name = "%s"
version = "0.0.0"
edition = "2021"

[dependencies]
lexgen = { path = "%s/crates/lexgen" }
lexgen_util = { path = "%s/crates/lexgen_util" }
serde_json = "1"
%s
""" % (name, REPO, REPO, extra_deps))
        with open(os.path.join(d, "generated.rs"), "w") as f:
            f.write(generated_rs)
        write_if_changed(os.path.join(d, "main.rs"), """#[path = "%s/src/drv.rs"]
pub mod drv;
mod generated;
include!("%s/src/%s");
""" % (HARNESS, HARNESS, main))
        self.crates.append(name)
        return name

    def add_crate(self, name, main_rs, deps="serde_json = \"1\"\n"):
        """A binary crate with the given main.rs text (for harnesses that are not lexer batches)."""
        d = ensure_dir(os.path.join(self.crate_dir(name), "src"))
        write_if_changed(os.path.join(self.crate_dir(name), "Cargo.toml"), """[package]
name = "%s"
version = "0.0.0"
edition = "2021"

[dependencies]
%s
""" % (name, deps))
        write_if_changed(os.path.join(d, "main.rs"), main_rs)
        # always rebuild: the included sources of /repo are not tracked by cargo through #[path]
        os.utime(os.path.join(d, "main.rs"))
        self.crates.append(name)
        return name

    def finish_manifest(self):
        # Remove crates from earlier runs that are not part of this one.
        for entry in os.listdir(self.root):
            p = os.path.join(self.root, entry)
            if os.path.isdir(p) and entry not in self.crates and entry not in (".cargo",):
                shutil.rmtree(p)
        members = ", ".join('"%s"' % c for c in self.crates)
        write_if_changed(os.path.join(self.root, "Cargo.toml"),
                         "[workspace]\nresolver = \"2\"\nmembers = [%s]\n" % members)

    def build(self, timeout=1500, expand_timeout=60, jobs=None, keep_going=False):
        """Build all crates.  Returns (ok, diagnostics text).  A failure is data for the caller
        (generated code that does not compile, macro panic, hang), not a tool error."""
        self.finish_manifest()
        env = dict(os.environ)
        env["LEXGEN_VERIF_DIR"] = self.dumps
        env["LEXGEN_VERIF_TIMEOUT"] = str(expand_timeout)
        env["CARGO_NET_OFFLINE"] = "true"
        env.pop("RUSTFLAGS", None)
        cmd = ["timeout", str(timeout), "cargo", "build", "--offline", "--message-format", "short"]
        if jobs:
            cmd += ["-j", str(jobs)]
        if keep_going:
            cmd += ["--keep-going"]
        t0 = time.time()
        cp = subprocess.run(cmd, cwd=self.root, env=env, capture_output=True, text=True)
        self.build_wall = time.time() - t0
        if cp.returncode == 124:
            return False, "TIMEOUT\n" + cp.stderr[-4000:]
        return cp.returncode == 0, cp.stderr

    def binary(self, name):
        return os.path.join(TARGET, "debug", name)

    def dump(self, lexer_name):
        p = os.path.join(self.dumps, lexer_name + ".json")
        if not os.path.exists(p):
            return None
        with open(p) as f:
            return json.load(f)


def run_parallel(cmds, timeout=1800, env=None):
    """Run commands (lists) in parallel, at most NCPU at a time. Returns list of return codes."""
    procs = []
    rcs = [None] * len(cmds)
    pending = list(enumerate(cmds))
    running = []
    e = dict(os.environ)
    if env:
        e.update(env)
    while pending or running:
        while pending and len(running) < NCPU:
            i, c = pending.pop(0)
            running.append((i, subprocess.Popen(c, env=e, stdout=subprocess.DEVNULL,
                                                stderr=subprocess.DEVNULL), time.time()))
        time.sleep(0.02)
        still = []
        for i, pr, t0 in running:
            rc = pr.poll()
            if rc is None:
                if time.time() - t0 > timeout:
                    pr.kill()
                    rcs[i] = -9
                else:
                    still.append((i, pr, t0))
            else:
                rcs[i] = rc
        running = still
    return rcs

# ---------------------------------------------------------------------------------------------
# Evidence / findings
# ---------------------------------------------------------------------------------------------

def load_known_findings():
    p = os.path.join(VERIF, "known_findings.json")
    if not os.path.exists(p):
        return {"findings": [], "fixed": []}
    with open(p) as f:
        return json.load(f)


def write_evidence(pid, tier, seed, level, coverage, wall, violations, assumptions=()):
    # Runs against deliberately modified trees (tools/seedtest.sh) must not touch the evidence
    # that describes the unchanged tree.
    evdir = os.environ.get("VERIF_EVIDENCE_DIR") or os.path.join(VERIF, "evidence")
    ensure_dir(evdir)
    ev = {
        "property_id": pid,
        "tier": tier,
        "seed": seed,
        "level": level,
        "coverage": coverage,
        "assumptions": list(assumptions),
        "wall_s": round(wall, 2),
        "violations": violations,
        "tree": repo_tree_id(),
    }
    with open(os.path.join(evdir, pid + ".json"), "w") as f:
        json.dump(ev, f, indent=1, sort_keys=True)
        f.write("\n")


def write_replay(pid, name, payload):
    d = ensure_dir(os.path.join(BUILD, "replays", pid))
    p = os.path.join(d, name + ".json")
    payload = dict(payload)
    payload["property"] = pid
    payload["tree"] = repo_tree_id()
    with open(p, "w") as f:
        json.dump(payload, f, indent=1)
        f.write("\n")
    return p

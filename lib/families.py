"""Program families (DESIGN.md section 4.3)."""

from progs import *  # noqa


RET = [D(False, -1, 1)]


def inf_rule(re, menu=None, ctx=None):
    return {"re": re, "ctx": ctx, "kind": "inf", "menu": menu or RET}


def fal_rule(re, menu, ctx=None):
    return {"re": re, "ctx": ctx, "kind": "fal", "menu": menu}


def simple_rule(re, ctx=None):
    return {"re": re, "ctx": ctx, "kind": "simple", "menu": SIMPLE_MENU}


def skip_rule(re, ctx=None):
    return {"re": re, "ctx": ctx, "kind": "skip", "menu": SKIP_MENU}


def fixed_mm(base_id):
    """Hand-picked maximal-munch shapes: the property's own example, the repository's issue-16 /
    failure-confusion shapes, cycles and joins reachable with and without an accepting prefix."""
    a, b, c = chr_(A), chr_(B), chr_(C)
    defs = [
        # C01's example: [b-c]"bab"([c-e]|"ab"), 'b', 'a', "cbaa"[b-c]
        [cats(set_([(B, C)]), str_([B, A, B]), alt(set_([(C, 101)]), str_([A, B]))), b, a,
         cat(str_([C, B, A, A]), set_([(B, C)]))],
        # C12's example: 'c', ['a'-'d']"cc", ['a'-'d']+"ba", 'c', 'b'
        [c, cat(set_([(A, 100)]), str_([C, C])), cat(plus(set_([(A, 100)])), str_([B, A])), c, b],
        # issue 16: "xyzxyz" / "xyz" / "xya"
        [str_([120, 121, 122, 120, 121, 122]), str_([120, 121, 122]), str_([120, 121, 97])],
        # long then short with a cycle
        [cat(plus(a), b), a],
        [cat(star(alt(a, b)), c), a, b],
        [cat(cat(a, star(cat(b, a))), c), plus(a), b],
        # join: two ways into the same suffix, one through an accepting state
        [cat(alt(a, str_([A, B])), str_([C, C])), a, str_([A, B]), c],
        [cat(opt(a), cat(b, cat(b, c))), b, a],
        [cat(plus(set_([(A, B)])), c), cat(a, b), b],
        [cat(any_(), cat(any_(), c)), a, any_()],
    ]
    out = []
    for i, rs in enumerate(defs):
        out.append(Program(base_id + i, [("Init", [inf_rule(r) for r in rs])],
                           sigma=(A, B, C, 120), k=5))
    out[0].sigma = [A, B, C, 100, 120]
    out[0].k = 5
    out[1].sigma = [A, B, C, 100]
    out[2].sigma = [120, 121, 122, 97]
    out[2].k = 6
    return out


def random_mm(seed, n, base_id, k=4, sigma=(A, B, C, 120), depth=3):
    g = Gen(seed)
    out = []
    while len(out) < n:
        nr = g.rnd.choice([2, 3, 3, 4, 4, 5, 6])
        rules = []
        for _ in range(nr):
            re = g.rule_regex(g.rnd.choice([1, 2, 2, depth]))
            r = g.rnd.random()
            if r < 0.7:
                rules.append(inf_rule(re))
            elif r < 0.85:
                rules.append(simple_rule(re))
            else:
                rules.append(skip_rule(re))
        p = Program(base_id + len(out), [("Init", rules)], sigma=sigma, k=k)
        if p.well_formed():
            out.append(p)
    return out


def random_menu(g, kind, nsets, size, allow_err=True, allow_switch=True):
    opts = []
    for reset in (False, True):
        for sw in ([-1] + (list(range(nsets)) if (allow_switch and nsets > 0) else [])):
            for ret in ((0, 1, 2) if (kind == "fal" and allow_err) else (0, 1)):
                opts.append(D(reset, sw, ret))
    g.rnd.shuffle(opts)
    # bias: the first (default) decision is a plain return or continue most of the time
    menu = opts[:size]
    if g.rnd.random() < 0.5:
        menu[0] = g.rnd.choice([D(False, -1, 1), D(False, -1, 0), D(True, -1, 0)])
    return menu


def random_general(seed, n, base_id, k=3, sigma=(A, B, C, 120), nsets=(1, 2, 2, 3), nrules=(0, 1, 2, 2, 3, 4),
                   p_ctx=0.0, p_eoi=0.0, p_sugar=0.25, menu_sizes=(1, 1, 2, 2, 3), p_fal=0.3,
                   depth=2, named=True, allow_switch=True, letters=(A, B, C), p_var=0.0, p_join=0.35):
    """Random definitions with several rule sets, decision menus, optional contexts / `$` rules."""
    g = Gen(seed, letters=letters)
    out = []
    tries = 0
    while len(out) < n:
        tries += 1
        ns = g.rnd.choice(nsets) if named else 1
        sets = []
        env = []
        for si in range(ns):
            rules = []
            nr = g.rnd.choice(nrules)
            if si == 0 and nr == 0 and g.rnd.random() < 0.8:
                nr = 2
            joins = []
            if g.rnd.random() < p_join and nr >= 2:
                # a join: a state reachable both through an accepting state and around it
                x, y = g.rnd.sample(list(letters), 2) if len(letters) >= 2 else (letters[0], letters[0])
                z = g.rnd.choice(list(letters))
                w = g.rnd.choice(list(letters))
                short = chr_(x)
                tail = g.rnd.choice([str_([z, w]), cat(chr_(z), plus(chr_(w))), cat(chr_(z), cat(opt(chr_(x)), chr_(w)))])
                long_ = cat(alt(chr_(x), chr_(y)), tail)
                joins = [short, long_]
                g.rnd.shuffle(joins)
            for ri in range(nr):
                re = g.rule_regex(g.rnd.choice([1, 1, 2, depth]))
                if ri < len(joins):
                    re = joins[ri]
                if p_var and g.rnd.random() < p_var:
                    usable = [e for e in env if e[2] in (-1, si)]
                    if usable and g.rnd.random() < 0.5:
                        # a second use of a variable, in different surroundings
                        vn = g.rnd.choice(usable)[0]
                    else:
                        vn = "v%d" % len(env)
                        scope = g.rnd.choice([-1, si])
                        if usable and g.rnd.random() < 0.35:
                            # a variable defined in terms of an earlier one (resolved when used)
                            u = g.rnd.choice(usable)
                            if u[2] != -1:
                                scope = si
                            re = g.rnd.choice([alt(var(u[0]), re), cat(var(u[0]), re), cat(re, var(u[0]))])
                        env.append((vn, re, scope))
                    re = g.rnd.choice([var(vn), cat(var(vn), g.atom()), plus(var(vn)), cat(g.atom(), var(vn)),
                                       cat(var(vn), cat(g.atom(), var(vn)))])
                if g.rnd.random() < p_eoi and ri >= len(joins):
                    re = g.with_eoi(re) if g.rnd.random() < 0.7 else eoi()
                ctx = g.ctx_regex(g.rnd.choice([0, 1, 1, 2])) if g.rnd.random() < p_ctx else None
                r = g.rnd.random()
                if r < p_sugar / 2:
                    rules.append(skip_rule(re, ctx))
                elif r < p_sugar:
                    rules.append(simple_rule(re, ctx))
                else:
                    kind = "fal" if g.rnd.random() < p_fal else "inf"
                    menu = random_menu(g, kind, ns if named else 0, g.rnd.choice(menu_sizes),
                                       allow_switch=allow_switch and named)
                    rules.append({"re": re, "ctx": ctx, "kind": kind, "menu": menu})
            name = "Init" if si == 0 else "S%d" % si
            sets.append((name, rules))
        p = Program(base_id + len(out), sets, env=env, sigma=sigma, k=k, named=named)
        if p.well_formed():
            out.append(p)
        if tries > 50 * n + 100:
            raise RuntimeError("generator cannot produce well-formed programs")
    return out


def join_templates(seed, n, base_id, k=5, letters=(A, B), sigma=(A, B, 120), p_eoi=0.5, nsets=(1, 2),
                   p_ctx=0.0):
    """Definitions built around a join: a state reachable both through an accepting state (rule
    `x`) and around it (rule `(x|y) z w`), so that a failing scan can die in a state flagged for
    rewinding without anything having been accepted on the path taken.  Optionally with `$` rules
    and with a second rule set entered by a switch."""
    g = Gen(seed, letters=letters)
    out = []
    while len(out) < n:
        ns = g.rnd.choice(nsets)
        sets = []
        for si in range(ns):
            x, y = g.rnd.sample(list(letters), 2)
            z = g.rnd.choice(list(letters))
            w = g.rnd.choice(list(letters))
            tail = g.rnd.choice([str_([z, w]), cat(chr_(z), plus(chr_(w))), str_([z, w, z])])
            short = chr_(x)
            long_ = cat(alt(chr_(x), chr_(y)), tail)
            if p_ctx and g.rnd.random() < p_ctx:
                # the context variant: an accepting state whose only rule has a context, with
                # further transitions
                short = str_([x, z])
                long_ = str_([x, z, w, y])
                rules = [inf_rule(short, ctx=chr_(w)), inf_rule(long_)]
            else:
                rules = [inf_rule(short), inf_rule(long_)]
            if g.rnd.random() < 0.5:
                rules.append(inf_rule(g.rule_regex(1)))
            if g.rnd.random() < p_eoi:
                rules.append(inf_rule(g.rnd.choice([eoi(), cat(chr_(y), eoi())])))
            g.rnd.shuffle(rules)
            sets.append(("Init" if si == 0 else "S%d" % si, rules))
        if ns > 1:
            # entering the other rule sets: some rule of each set switches (continue or return)
            for si in range(ns):
                tgt = (si + 1) % ns
                r = g.rnd.choice(sets[si][1])
                r["menu"] = [D(g.rnd.random() < 0.5, tgt, g.rnd.choice([0, 1]))] + (
                    [D(False, -1, 1)] if g.rnd.random() < 0.5 else [])
        p = Program(base_id + len(out), sets, sigma=sigma, k=k)
        if p.well_formed():
            out.append(p)
    return out



ASCII_BI = {
    "lowercase": [[97, 122]], "uppercase": [[65, 90]], "alphabetic": [[65, 90], [97, 122]],
    "numeric": [[48, 57]], "alphanumeric": [[48, 57], [65, 90], [97, 122]], "whitespace": [[9, 13], [32, 32]],
    "none": [],
}


def builtin_family(base_id, k=4):
    """Lexers with two or more large built-in classes (each compiled to its own binary-search
    table).  Inputs are ASCII only, where the built-in tables are beyond doubt, so the
    specification's table is the ASCII restriction of the predicate."""
    progs = []
    defs = [
        ([inf_rule(plus(bi("lowercase"))), inf_rule(plus(bi("uppercase"))), skip_rule(chr_(32))], (97, 81, 32)),
        ([inf_rule(cat(bi("uppercase"), star(bi("lowercase")))), inf_rule(plus(bi("numeric"))),
          inf_rule(bi("lowercase")), skip_rule(plus(bi("whitespace")))], (97, 81, 55, 32)),
        ([inf_rule(plus(bi("alphabetic")), ctx=bi("numeric")), inf_rule(plus(bi("lowercase"))),
          inf_rule(plus(bi("uppercase"))), inf_rule(bi("numeric"))], (97, 81, 55)),
    ]
    for i, (rules, sigma) in enumerate(defs):
        p = Program(base_id + i, [("Init", rules)], sigma=sigma, k=k)
        p.bi = ASCII_BI
        p.ascii_only = True
        progs.append(p)
    # the same over two rule sets with switches
    rules0 = [inf_rule(plus(bi("lowercase")), menu=[D(False, 1, 1)]), inf_rule(plus(bi("uppercase"))), skip_rule(chr_(32))]
    rules1 = [inf_rule(plus(bi("uppercase")), menu=[D(False, 0, 1)]), inf_rule(plus(bi("lowercase"))), skip_rule(chr_(32))]
    p = Program(base_id + len(defs), [("Init", rules0), ("S1", rules1)], sigma=(97, 81, 32), k=k)
    p.bi = ASCII_BI
    p.ascii_only = True
    progs.append(p)
    return progs


def arm_family(seed, n, base_id, k=3, p_ctx=0.0, p_bare=0.2):
    """Definitions aimed at the transition structure of one automaton state: several rules share
    an (optional) prefix and then diverge on *class atoms* that overlap in every way -- single
    characters, ranges, sets with holes (`X # 'b'`), `_`, `_ # X`, `'b' | _` -- followed by short
    suffixes, some of them equal so that different characters lead to the same target state and
    others do not.  The state after the prefix then has character, range and `_` transitions at
    once, with coinciding and differing targets; every input of length <= k over the letters, the
    suffix characters and one outsider is replayed (seed S-F9: an arm dropped because its target
    equals the `_` target while a merged range bridges over it)."""
    g = Gen(seed)
    rnd = g.rnd
    L = [97, 98, 99, 100, 101]

    focus = [L[1]]

    def letter():
        # most atoms of one definition talk about the same letter (its own arm, the hole of a
        # class, the single member of a set), so that their arms coincide
        return focus[0] if rnd.random() < 0.6 else rnd.choice(L)

    def rng():
        a = rnd.choice(L[:-1])
        return (a, rnd.choice([x for x in L if x > a]))

    def base_atom():
        r = rnd.random()
        if r < 0.25:
            return chr_(letter())
        if r < 0.5:
            return set_([rng()])
        if r < 0.65:
            items = [rng(), (letter(),) * 2]
            rnd.shuffle(items)
            return set_(list(dict.fromkeys(items)))
        return any_()

    def atom():
        r = rnd.random()
        if r < 0.3:
            return base_atom()
        if r < 0.65:
            wide = rnd.choice([set_([(97, 101)]), set_([(97, 101)]), any_(), set_([rng()])])
            hole = rnd.choice([chr_(letter()), chr_(letter()), set_([rng()])])
            return diff(wide, hole)
        if r < 0.85:
            return alt(chr_(letter()), rnd.choice([any_(), any_(), set_([rng()]), diff(any_(), chr_(letter()))]))
        return diff(diff(any_(), chr_(letter())), chr_(rnd.choice(L)))

    def suffix():
        r = rnd.random()
        if r < p_bare:
            return None
        r = 0.2 + 0.8 * rnd.random()
        if r < 0.5:
            return chr_(62)
        if r < 0.75:
            return chr_(33)
        if r < 0.85:
            return plus(chr_(62))
        return rnd.choice([str_([62, 33]), opt(chr_(33))])

    out = []
    tries = 0
    while len(out) < n and tries < 200 * n:
        tries += 1
        focus[0] = rnd.choice(L[1:-1])
        prefix = rnd.choice([None, None, chr_(60), chr_(97)])
        nr = rnd.choice([2, 2, 3, 3, 4])
        rules = []
        for _ in range(nr):
            parts = [x for x in (prefix, atom()) if x is not None]
            s = suffix()
            if s is not None and not (s["k"] == "opt" and False):
                parts.append(s)
            if rnd.random() < 0.12:
                parts[-1] = plus(parts[-1]) if parts[-1]["k"] not in ("plus", "opt", "str") else parts[-1]
            re = cats(*parts)
            ctx = None
            if p_ctx and rnd.random() < p_ctx:
                # a right context: a letter, a class of letters, a suffix character or `$` ...
                ctx = rnd.choice([chr_(rnd.choice(L)), set_([rng()]), chr_(62), eoi(),
                                  diff(any_(), chr_(rnd.choice(L)))])
                if rnd.random() < 0.45:
                    # ... or a context whose own automaton has a state with character, range and
                    # `_` arms at once: alternatives that diverge on overlapping class atoms
                    branches = []
                    for _b in range(rnd.choice([2, 3, 3])):
                        sfx = suffix()
                        branches.append(cats(*[x for x in (atom(), sfx) if x is not None]))
                    ctx = alts(*branches)
                if rnd.random() < 0.3:
                    # ... or one in which a character is named literally in one alternative and is
                    # all that is left of a range in another (a one-character range piece next to
                    # a character arm, with different continuations)
                    c_ = rnd.choice(L[1:-1])
                    piece = rnd.choice([
                        [set_([(c_ - 1, c_)]), set_([(c_, c_ + 1)])],
                        [{"k": "set", "items": [{"lo": c_, "hi": c_, "as_range": True}]}],
                        [diff(set_([(c_ - 1, c_)]), chr_(c_ - 1))],
                    ])
                    tails = [chr_(62), chr_(33)]
                    ctx = alts(chr_(c_), *[cat(x, t) for x, t in zip(piece, tails)])
            rules.append(inf_rule(re, ctx=ctx) if rnd.random() < 0.8 else simple_rule(re, ctx=ctx))
        if p_ctx and rnd.random() < 0.35:
            # the "sign" template: a context-guarded class first, then different rules for its
            # members (each member has its own fallback when the context fails)
            x, y = rnd.sample(L, 2)
            cls_ = rnd.choice([set_([(x, x), (y, y)]), set_([(min(x, y), max(x, y))]), any_(),
                               diff(any_(), chr_(rnd.choice(L)))])
            ctx = rnd.choice([chr_(rnd.choice(L)), set_([rng()]), chr_(62), eoi()])
            pre = [prefix] if prefix is not None else []
            rules = [inf_rule(cats(*(pre + [cls_])), ctx=ctx),
                     rnd.choice([inf_rule, simple_rule])(cats(*(pre + [chr_(x)]))),
                     rnd.choice([inf_rule, simple_rule])(cats(*(pre + [rnd.choice([chr_(y), set_([rng()])])])))]
            if rnd.random() < 0.5:
                rules.insert(rnd.randrange(1, 4), inf_rule(cats(*(pre + [atom()])), ctx=rnd.choice([None, chr_(rnd.choice(L))])))
        if rnd.random() < 0.4:
            rules.append(simple_rule(any_()))
        sigma = sorted(set(L + [62, 33, 120] + ([60] if prefix is not None and prefix["c"] == 60 else [])))
        p = Program(base_id + len(out), [("Init", rules)], sigma=sigma, k=k, named=rnd.random() < 0.5)
        try:
            if p.well_formed():
                out.append(p)
        except Exception:
            continue
    return out


def realistic_family(seed, n, base_id, k=3):
    """Lexers shaped like the ones people write (and like the demonstrations mutation agents
    write): whitespace skipping, keywords before identifiers, integers and floats (rewind on
    "12."), operators that are prefixes of one another, a sign rule with a right context in front
    of '+' and '-', line comments with `_ # '\\n'`, strings and block comments as rule sets
    entered by `switch` with accumulation (`continue_`), escapes, `switch_and_return`, and an
    error or a `$` rule for unterminated strings.  Components, their order (within the priority
    constraints that keep the definition meaningful) and their details are drawn at random."""
    g = Gen(seed)
    rnd = g.rnd
    SP, NL, QU, BS, SL, ST, DOT, EQ, LT, GT, PL, MI = 32, 10, 34, 92, 47, 42, 46, 61, 60, 62, 43, 45
    I, Fc, N, ZERO, ONE = 105, 102, 110, 48, 49
    out = []
    while len(out) < n:
        lower = rnd.choice([set_([(97, 122)]), bi("lowercase"), set_([(97, 110)])])
        digit = rnd.choice([set_([(48, 57)]), bi("numeric"), set_([(48, 49)])])
        use_str = rnd.random() < 0.6
        use_com = rnd.random() < 0.4
        names = ["Init"] + (["Str"] if use_str else []) + (["Com"] if use_com else [])
        idx = {nm: i for i, nm in enumerate(names)}
        init = []
        sig = {I, Fc, ONE}
        # whitespace
        if rnd.random() < 0.8:
            init.append(skip_rule(rnd.choice([plus(set_([(SP, SP), (NL, NL)])), set_([(SP, SP), (NL, NL)]), chr_(SP)])))
            sig.add(SP)
        # keywords, then identifiers
        kws = rnd.sample([[I, Fc], [I, N], [I, N, 116], [Fc, N]], rnd.choice([0, 1, 2]))
        words = [simple_rule(str_(w)) for w in kws]
        ident = rnd.choice([cat(lower, star(alt(lower, digit))), plus(lower), cat(lower, star(alts(lower, digit, chr_(95))))])
        words.append(rnd.choice([simple_rule, inf_rule])(ident))
        if rnd.random() < 0.15:
            words.reverse()     # identifiers first: keywords never win (still a well-formed lexer)
        init += words
        # numbers
        nums = [inf_rule(plus(digit))]
        if rnd.random() < 0.6:
            nums.append(inf_rule(cats(plus(digit), chr_(DOT), plus(digit))))
            sig.add(DOT)
        rnd.shuffle(nums)
        init += nums
        # operators
        ops = rnd.sample([[EQ], [EQ, EQ], [EQ, GT], [LT], [LT, EQ], [LT, LT, EQ], [GT, GT]], rnd.choice([1, 2, 3, 4]))
        for o in ops:
            init.append(simple_rule(str_(o) if len(o) > 1 else chr_(o[0])))
            sig.update(o)
        if rnd.random() < 0.5:
            sgn = [inf_rule(set_([(PL, PL), (MI, MI)]), ctx=digit)]
            if rnd.random() < 0.8:
                sgn.append(simple_rule(chr_(PL)))
            if rnd.random() < 0.8:
                sgn.append(simple_rule(chr_(MI)))
            init += sgn
            sig.update([PL, MI])
        if rnd.random() < 0.4:
            init.append(skip_rule(cat(str_([SL, SL]), star(diff(any_(), chr_(NL))))))
            sig.update([SL, NL])
        sets = {"Init": init}
        if use_str:
            init.append(inf_rule(chr_(QU), menu=[D(rnd.random() < 0.3, idx["Str"], 0)]))
            s = [inf_rule(chr_(QU), menu=[D(False, 0, 1)]),
                 inf_rule(cat(chr_(BS), any_()), menu=[D(False, -1, 0)]),
                 inf_rule(rnd.choice([diff(any_(), set_([(QU, QU), (BS, BS)])), any_()]), menu=[D(False, -1, 0)])]
            if rnd.random() < 0.4:
                s.append(fal_rule(eoi(), [D(False, 0, 2)]))
            rnd.shuffle(s) if rnd.random() < 0.3 else None
            sets["Str"] = s
            sig.update([QU, BS])
        if use_com:
            init.append(inf_rule(str_([SL, ST]), menu=[D(False, idx["Com"], 0)]))
            c = [inf_rule(str_([ST, SL]), menu=[D(True, 0, 0)]),
                 rnd.choice([skip_rule(any_()), inf_rule(any_(), menu=[D(False, -1, 0)])])]
            if rnd.random() < 0.3:
                c.insert(0, inf_rule(str_([SL, ST]), menu=[D(False, -1, 0)]))
            sets["Com"] = c
            sig.update([SL, ST])
        if rnd.random() < 0.3:
            init.append(simple_rule(any_()))
        sigma = sorted(sig)
        if len(sigma) > 9:
            keep = [c for c in (QU, BS, SL, ST, DOT, PL) if c in sig]
            sigma = sorted(set(keep + rnd.sample(sigma, 9))[:10]) if False else sorted(set(keep) | set(rnd.sample(sigma, max(1, 9 - len(keep)))))
        p = Program(base_id + len(out), [(nm, sets[nm]) for nm in names], sigma=sigma, k=k)
        p.bi = ASCII_BI
        p.ascii_only = True
        try:
            ok = p.well_formed(ASCII_BI)
        except Exception:
            ok = False
        if ok:
            out.append(p)
    return out


def add_quirks(progs, seed, p=0.6):
    """Unusual but legal ways of writing a definition, applied to programs of another family (the
    specification sees the same structure, only the order and redundancy change): a rule written
    twice, a rule completely shadowed by an earlier one, an unused `let`, a `let` used only as a
    right context, a rule set that is never entered, bracket-set members in descending order with
    a member repeated inside a range, redundant parentheses."""
    import copy as _copy
    rnd = random.Random(seed * 131 + 7)
    out = []
    for p0 in progs:
        if rnd.random() > p:
            out.append(p0)
            continue
        q = _copy.deepcopy(p0)
        named = q.named
        for _ in range(rnd.choice([1, 2, 3])):
            kind = rnd.choice(["dup", "shadow", "unused_let", "ctx_let", "dead_set", "set_order", "parens"])
            sets_with_rules = [s for s in q.sets if s[1]]
            if kind == "dup" and sets_with_rules:
                name, rs = rnd.choice(sets_with_rules)
                r = _copy.deepcopy(rnd.choice(rs))
                rs.insert(rnd.randrange(len(rs) + 1), r)
            elif kind == "shadow" and sets_with_rules:
                name, rs = rnd.choice(sets_with_rules)
                i = rnd.randrange(len(rs))
                if rs[i].get("ctx") is None:
                    rs.insert(rnd.randrange(i + 1, len(rs) + 1), simple_rule(_copy.deepcopy(rs[i]["re"])))
            elif kind == "unused_let":
                q.env.append(("u%d" % len(q.env), alt(chr_(A), str_([B, C])), -1))
            elif kind == "ctx_let" and sets_with_rules:
                name, rs = rnd.choice(sets_with_rules)
                r = rnd.choice(rs)
                if r.get("ctx") is None:
                    vn = "c%d" % len(q.env)
                    q.env.append((vn, rnd.choice([chr_(A), set_([(A, B)]), cat(chr_(B), opt(chr_(C)))]), -1))
                    r["ctx"] = var(vn)
            elif kind == "dead_set" and named:
                q.sets.append(("Z%d" % len(q.sets), [simple_rule(chr_(A)), inf_rule(plus(chr_(B)))]))
            elif kind == "set_order":
                def walk(re):
                    if re["k"] == "set" and len(re["items"]) >= 1:
                        items = sorted(re["items"], key=lambda it: -it["lo"])
                        big = [it for it in items if it["hi"] > it["lo"]]
                        singles = {it["lo"] for it in items if it["lo"] == it["hi"]}
                        if big and big[0]["lo"] + 1 not in singles and big[0]["lo"] + 1 <= big[0]["hi"]:
                            # a member of the range listed again as a single character
                            items.append({"lo": big[0]["lo"] + 1, "hi": big[0]["lo"] + 1})
                        re["items"] = items
                    for f_ in ("a", "b"):
                        if f_ in re:
                            walk(re[f_])
                for r in q.rules():
                    walk(r["re"])
            elif kind == "parens":
                q.paren_seed = rnd.randrange(1 << 30)
        try:
            ok = q.well_formed(getattr(q, "bi", None))
        except Exception:
            ok = False
        out.append(q if ok else p0)
    return out

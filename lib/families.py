"""Program families (DESIGN.md section 4.3)."""

from progs import *  # noqa


RET = [D(False, -1, 1)]


def inf_rule(re, menu=None, ctx=None):
    return {"re": re, "ctx": ctx, "kind": "inf", "menu": menu or RET}


def fal_rule(re, menu, ctx=None):
    return {"re": re, "ctx": ctx, "kind": "fal", "menu": menu}


def simple_rule(re, ctx=None):
    return {"re": re, "ctx": ctx, "kind": "simple", "menu": SIMPLE_MENU}


def skip_rule(re, ctx=None):
    return {"re": re, "ctx": ctx, "kind": "skip", "menu": SKIP_MENU}


def fixed_mm(base_id):
    """Hand-picked maximal-munch shapes: the property's own example, the repository's issue-16 /
    failure-confusion shapes, cycles and joins reachable with and without an accepting prefix."""
    a, b, c = chr_(A), chr_(B), chr_(C)
    defs = [
        # C01's example: [b-c]"bab"([c-e]|"ab"), 'b', 'a', "cbaa"[b-c]
        [cats(set_([(B, C)]), str_([B, A, B]), alt(set_([(C, 101)]), str_([A, B]))), b, a,
         cat(str_([C, B, A, A]), set_([(B, C)]))],
        # C12's example: 'c', ['a'-'d']"cc", ['a'-'d']+"ba", 'c', 'b'
        [c, cat(set_([(A, 100)]), str_([C, C])), cat(plus(set_([(A, 100)])), str_([B, A])), c, b],
        # issue 16: "xyzxyz" / "xyz" / "xya"
        [str_([120, 121, 122, 120, 121, 122]), str_([120, 121, 122]), str_([120, 121, 97])],
        # long then short with a cycle
        [cat(plus(a), b), a],
        [cat(star(alt(a, b)), c), a, b],
        [cat(cat(a, star(cat(b, a))), c), plus(a), b],
        # join: two ways into the same suffix, one through an accepting state
        [cat(alt(a, str_([A, B])), str_([C, C])), a, str_([A, B]), c],
        [cat(opt(a), cat(b, cat(b, c))), b, a],
        [cat(plus(set_([(A, B)])), c), cat(a, b), b],
        [cat(any_(), cat(any_(), c)), a, any_()],
    ]
    out = []
    for i, rs in enumerate(defs):
        out.append(Program(base_id + i, [("Init", [inf_rule(r) for r in rs])],
                           sigma=(A, B, C, 120), k=5))
    out[0].sigma = [A, B, C, 100, 120]
    out[0].k = 5
    out[1].sigma = [A, B, C, 100]
    out[2].sigma = [120, 121, 122, 97]
    out[2].k = 6
    return out


def random_mm(seed, n, base_id, k=4, sigma=(A, B, C, 120), depth=3):
    g = Gen(seed)
    out = []
    while len(out) < n:
        nr = g.rnd.choice([2, 3, 3, 4, 4, 5, 6])
        rules = []
        for _ in range(nr):
            re = g.rule_regex(g.rnd.choice([1, 2, 2, depth]))
            r = g.rnd.random()
            if r < 0.7:
                rules.append(inf_rule(re))
            elif r < 0.85:
                rules.append(simple_rule(re))
            else:
                rules.append(skip_rule(re))
        p = Program(base_id + len(out), [("Init", rules)], sigma=sigma, k=k)
        if p.well_formed():
            out.append(p)
    return out

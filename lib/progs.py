"""Lexer definitions ("programs"): representation, JSON for the TLA+ specs, Rust text for the
real macro, well-formedness as the specification defines it, and seeded random families."""

import json
import random

MAXC = 0x10FFFF

# ---------------------------------------------------------------------------------------------
# Regex constructors (plain dicts; the JSON given to TLC is exactly this structure).
# ---------------------------------------------------------------------------------------------

def chr_(c): return {"k": "chr", "c": c}
def str_(s): return {"k": "str", "s": list(s)}
def set_(items):
    """items: list of (lo, hi); lo == hi is printed as a single character."""
    return {"k": "set", "items": [{"lo": lo, "hi": hi} for lo, hi in items]}
def any_(): return {"k": "any"}
def eoi(): return {"k": "eoi"}
def bi(n): return {"k": "bi", "n": n}
def var(n): return {"k": "var", "n": n}
def diff(a, b): return {"k": "diff", "a": a, "b": b}
def cat(a, b): return {"k": "cat", "a": a, "b": b}
def alt(a, b): return {"k": "alt", "a": a, "b": b}
def star(a): return {"k": "star", "a": a}
def plus(a): return {"k": "plus", "a": a}
def opt(a): return {"k": "opt", "a": a}


def cats(*rs):
    out = rs[0]
    for r in rs[1:]:
        out = cat(out, r)
    return out


def alts(*rs):
    out = rs[0]
    for r in rs[1:]:
        out = alt(out, r)
    return out

# ---------------------------------------------------------------------------------------------
# Printing as lexgen syntax, with the fewest parentheses the documented grammar allows:
#   level 0: |   level 1: concatenation   level 2: postfix * + ?   level 3: #   level 4: atoms
# ---------------------------------------------------------------------------------------------

LEVEL = {"alt": 0, "cat": 1, "star": 2, "plus": 2, "opt": 2, "diff": 3}


def rust_char(c):
    ch = chr(c)
    if ch.isascii() and ch.isalnum():
        return "'%s'" % ch
    return "'\\u{%x}'" % c


def rust_str(s):
    out = []
    for c in s:
        ch = chr(c)
        if ch.isascii() and ch.isalnum():
            out.append(ch)
        else:
            out.append("\\u{%x}" % c)
    return '"%s"' % "".join(out)


def to_rust(re, level=0, redundant=None):
    """redundant: optional random.Random; adds redundant parentheses now and then."""
    k = re["k"]
    lv = LEVEL.get(k, 4)
    if k == "chr":
        s = rust_char(re["c"])
    elif k == "str":
        s = rust_str(re["s"])
    elif k == "set":
        parts = []
        for it in re["items"]:
            if it["lo"] == it["hi"] and not it.get("as_range"):
                parts.append(rust_char(it["lo"]))
            else:
                parts.append("%s-%s" % (rust_char(it["lo"]), rust_char(it["hi"])))
        s = "[" + " ".join(parts) + "]"
    elif k == "any":
        s = "_"
    elif k == "eoi":
        s = "$"
    elif k == "bi":
        s = "$$" + re["n"]
    elif k == "var":
        s = "$" + re["n"]
    elif k == "alt":
        s = to_rust(re["a"], 0, redundant) + " | " + to_rust(re["b"], 1, redundant)
    elif k == "cat":
        s = to_rust(re["a"], 1, redundant) + " " + to_rust(re["b"], 2, redundant)
    elif k in ("star", "plus", "opt"):
        s = to_rust(re["a"], 2, redundant) + {"star": "*", "plus": "+", "opt": "?"}[k]
    elif k == "diff":
        s = to_rust(re["a"], 3, redundant) + " # " + to_rust(re["b"], 4, redundant)
    else:
        raise ValueError(k)
    if lv < level or (redundant is not None and redundant.random() < 0.15):
        s = "(" + s + ")"
    return s

# ---------------------------------------------------------------------------------------------
# Meaning of classes as interval lists (generator-side; the specification's InClass is the
# reference, this is only used to keep generated definitions inside well-formedness).
# ---------------------------------------------------------------------------------------------

def norm(iv):
    iv = sorted(iv)
    out = []
    for lo, hi in iv:
        if lo > hi:
            continue
        if out and lo <= out[-1][1] + 1:
            out[-1] = (out[-1][0], max(out[-1][1], hi))
        else:
            out.append((lo, hi))
    return out


def iv_diff(a, b):
    out = []
    for lo, hi in a:
        cur = lo
        for blo, bhi in b:
            if bhi < cur or blo > hi:
                continue
            if blo > cur:
                out.append((cur, blo - 1))
            cur = max(cur, bhi + 1)
            if cur > hi:
                break
        if cur <= hi:
            out.append((cur, hi))
    return norm(out)


def class_iv(re, env, builtins=None):
    k = re["k"]
    if k == "chr":
        return [(re["c"], re["c"])]
    if k == "set":
        return norm([(it["lo"], it["hi"]) for it in re["items"]])
    if k == "any":
        return [(0, MAXC)]
    if k == "bi":
        return norm([tuple(r) for r in builtins[re["n"]]])
    if k == "alt":
        return norm(class_iv(re["a"], env, builtins) + class_iv(re["b"], env, builtins))
    if k == "diff":
        return iv_diff(class_iv(re["a"], env, builtins), class_iv(re["b"], env, builtins))
    if k == "var":
        return class_iv(env[re["n"]], env, builtins)
    raise ValueError("not a class: " + k)


def is_class(re, env):
    k = re["k"]
    if k in ("chr", "set", "any", "bi"):
        return True
    if k in ("alt", "diff"):
        return is_class(re["a"], env) and is_class(re["b"], env)
    if k == "var":
        return is_class(env[re["n"]], env)
    return False

# ---------------------------------------------------------------------------------------------
# Sampling strings of a regex (input generation only: inputs built from lexemes of the rules
# reach deep states that uniformly random characters almost never reach).
# ---------------------------------------------------------------------------------------------

KNOWN_CHARS = list(range(32, 127)) + [10, 9, 13, 27, 127, 128, 133, 173, 233, 768, 769, 2047, 2048, 4352, 4448, 8203, 8205, 8232,
               12288, 12354, 28450, 55295, 57344, 65279, 65281, 65313, 65535, 65536, 128512, 1114111]


def sample_class(re, env, rnd, sigma, builtins, known_chars=None):
    """A member of the class among the program's alphabet, else among characters whose display
    width Chars.tla states (printable ASCII and the location alphabet): inputs never contain a
    character the specification has no width for."""
    iv = class_iv(re, env, builtins)
    if not iv:
        return None
    inside = [c for c in sigma if any(lo <= c <= hi for lo, hi in iv)]
    if inside and rnd.random() < 0.85:
        return rnd.choice(inside)
    known = [c for c in (KNOWN_CHARS if known_chars is None else known_chars) if any(lo <= c <= hi for lo, hi in iv)]
    if known:
        return rnd.choice(known)
    return rnd.choice(inside) if inside else None


def sample_regex(re, env, rnd, sigma, builtins=None, depth=0, known_chars=None):
    """A random string (list of code points) of the language of re ($ contributes nothing)."""
    k = re["k"]
    if k == "str":
        return list(re["s"])
    if k == "eoi":
        return []
    if k in ("chr", "set", "any", "bi", "diff") or (k in ("alt", "var") and is_class(re, env)):
        try:
            c = sample_class(re, env, rnd, sigma, builtins, known_chars)
        except Exception:
            c = None
        return [] if c is None else [c]
    if k == "var":
        return sample_regex(env[re["n"]], env, rnd, sigma, builtins, depth + 1, known_chars)
    if k == "cat":
        return (sample_regex(re["a"], env, rnd, sigma, builtins, depth + 1, known_chars)
                + sample_regex(re["b"], env, rnd, sigma, builtins, depth + 1, known_chars))
    if k == "alt":
        return sample_regex(re[rnd.choice("ab")], env, rnd, sigma, builtins, depth + 1, known_chars)
    n = {"star": rnd.choice([0, 1, 2, 3]), "plus": rnd.choice([1, 1, 2, 3]), "opt": rnd.choice([0, 1])}[k]
    if depth > 6:
        n = min(n, 1)
    out = []
    for _ in range(n):
        out += sample_regex(re["a"], env, rnd, sigma, builtins, depth + 1, known_chars)
    return out

# ---------------------------------------------------------------------------------------------
# Well-formedness (Appendix B of DESIGN.md; mirrors Regex!TailOnly / Nullable).
# ---------------------------------------------------------------------------------------------

def nullable(re, env):
    k = re["k"]
    if k == "str":
        return len(re["s"]) == 0
    if k == "cat":
        return nullable(re["a"], env) and nullable(re["b"], env)
    if k == "alt":
        return nullable(re["a"], env) or nullable(re["b"], env)
    if k in ("star", "opt"):
        return True
    if k == "plus":
        return nullable(re["a"], env)
    if k == "var":
        return nullable(env[re["n"]], env)
    return False


def has_eoi(re, env):
    k = re["k"]
    if k == "eoi":
        return True
    if k in ("cat", "alt"):
        return has_eoi(re["a"], env) or has_eoi(re["b"], env)
    if k in ("star", "plus", "opt"):
        return has_eoi(re["a"], env)
    if k == "var":
        return has_eoi(env[re["n"]], env)
    return False


def tail_only(re, env):
    k = re["k"]
    if k == "cat":
        return not has_eoi(re["a"], env) and tail_only(re["b"], env)
    if k == "alt":
        return tail_only(re["a"], env) and tail_only(re["b"], env)
    if k == "opt":
        return tail_only(re["a"], env)
    if k in ("star", "plus"):
        return not has_eoi(re["a"], env)
    if k == "var":
        return tail_only(env[re["n"]], env)
    return True


def classes_ok(re, env, builtins=None):
    """No empty class, no inverted range, no empty string, no repeated single character in a
    bracket set (the latter is C12's family, not part of the general ones)."""
    k = re["k"]
    if k == "str":
        return len(re["s"]) > 0
    if k == "set":
        singles = [it["lo"] for it in re["items"] if it["lo"] == it["hi"]]
        if len(singles) != len(set(singles)):
            return False
        return len(re["items"]) > 0 and all(it["lo"] <= it["hi"] for it in re["items"])
    if k == "diff":
        if not (is_class(re["a"], env) and is_class(re["b"], env)):
            return False
        if not (classes_ok(re["a"], env, builtins) and classes_ok(re["b"], env, builtins)):
            return False
        return len(class_iv(re, env, builtins)) > 0
    if k in ("cat", "alt"):
        return classes_ok(re["a"], env, builtins) and classes_ok(re["b"], env, builtins)
    if k in ("star", "plus", "opt"):
        return classes_ok(re["a"], env, builtins)
    if k == "var":
        return classes_ok(env[re["n"]], env, builtins)
    return True


def rule_ok(re, ctx, env, builtins=None):
    if nullable(re, env) or not tail_only(re, env) or not classes_ok(re, env, builtins):
        return False
    if ctx is not None:
        if not tail_only(ctx, env) or not classes_ok(ctx, env, builtins):
            return False
    return True

# ---------------------------------------------------------------------------------------------
# Programs
# ---------------------------------------------------------------------------------------------

def D(reset=False, sw=-1, ret=0):
    return {"reset": reset, "sw": sw, "ret": ret}


SKIP_MENU = [D(True, -1, 0)]
SIMPLE_MENU = [D(False, -1, 1)]


class Program:
    """sets: list of (name, [rule]) ; rule: dict(re, ctx (None or re), kind, menu)
    env: list of (name, re, scope) with scope -1 (top level) or the index of a rule set;
    names are globally unique."""

    def __init__(self, pid, sets, env=(), sigma=(97, 98, 99, 120), k=4, inputs=(), named=True):
        self.id = pid
        self.sets = sets
        self.env = list(env)
        self.sigma = list(sigma)
        self.k = k
        self.inputs = [list(i) for i in inputs]
        self.named = named

    def envmap(self):
        return {n: re for n, re, _ in self.env}

    def rules(self):
        out = []
        for _, rules in self.sets:
            out.extend(rules)
        return out

    def to_json(self):
        rules = []
        sets = []
        for name, rs in self.sets:
            idxs = []
            for r in rs:
                idxs.append(len(rules))
                rules.append({
                    "re": r["re"],
                    "ctx": [] if r.get("ctx") is None else [r["ctx"]],
                    "kind": r["kind"],
                    "menu": r["menu"],
                })
            sets.append({"name": name, "rules": idxs})
        return {
            "id": self.id,
            "sigma": self.sigma,
            "k": self.k,
            "inputs": self.inputs,
            "guides": [list(g) for g in getattr(self, "guides", [])],
            "env": [{"n": n, "re": re} for n, re, _ in self.env],
            "bi": getattr(self, "bi", {"none": []}),
            "sets": sets,
            "rules": rules,
            "scopes": [sc for _, _, sc in self.env],
            "named": self.named,
        }

    @staticmethod
    def from_json(j):
        rules = j["rules"]
        sets = []
        for s in j["sets"]:
            rs = []
            for i in s["rules"]:
                r = rules[i]
                rs.append({"re": r["re"], "ctx": r["ctx"][0] if r["ctx"] else None,
                           "kind": r["kind"], "menu": r["menu"]})
            sets.append((s["name"], rs))
        env = [(e["n"], e["re"], sc) for e, sc in zip(j["env"], j.get("scopes", [-1] * len(j["env"])))]
        p = Program(j["id"], sets, env=env, sigma=j["sigma"], k=j["k"], inputs=j["inputs"],
                    named=j.get("named", True))
        if "bi" in j:
            p.bi = j["bi"]
        return p

    def well_formed(self, builtins=None):
        env = self.envmap()
        if not self.sets or self.sets[0][0] != "Init":
            return False
        for r in self.rules():
            if not rule_ok(r["re"], r.get("ctx"), env, builtins):
                return False
        return True

    def lexer_name(self):
        return "L%d" % self.id

    def body(self, redundant=None):
        """Text between the braces of lexer!{...} after the header line."""
        if redundant is None and getattr(self, "paren_seed", None) is not None:
            # written with redundant parentheses here and there (same text on every call)
            redundant = random.Random(self.paren_seed)
        lines = []
        for n, re, scope in self.env:
            if scope == -1:
                lines.append("    let %s = %s;" % (n, to_rust(re, 0, redundant)))
        ridx = 0
        has_sw = self.named
        for si, (name, rs) in enumerate(self.sets):
            ind = "    "
            if self.named:
                lines.append("    rule %s {" % name)
                ind = "        "
                for n, re, scope in self.env:
                    if scope == si:
                        lines.append("%slet %s = %s;" % (ind, n, to_rust(re, 0, redundant)))
            for r in rs:
                lhs = to_rust(r["re"], 0, redundant)
                if r.get("ctx") is not None:
                    lhs += " > " + to_rust(r["ctx"], 0, redundant)
                kind = r["kind"]
                if kind == "skip":
                    lines.append("%s%s," % (ind, lhs))
                elif kind == "simple":
                    lines.append("%s%s = tk(%d)," % (ind, lhs, ridx))
                else:
                    menu = ", ".join(
                        "D { reset: %s, sw: %d, ret: %d }"
                        % ("true" if d["reset"] else "false", d["sw"], d["ret"])
                        for d in r["menu"])
                    mac = {"inf": "act", "fal": "actf"}[kind] + ("" if has_sw else "_ns")
                    arrow = "=>" if kind == "inf" else "=?"
                    tail = ", sw" if has_sw else ""
                    lines.append("%s%s %s |lexer| %s!(lexer, %d, [%s]%s)," %
                                 (ind, lhs, arrow, mac, ridx, menu, tail))
                ridx += 1
            if self.named:
                lines.append("    }")
        return "\n".join(lines)

    def to_rust_module(self, redundant=None, derive_clone=True):
        name = self.lexer_name()
        out = []
        out.append("pub mod p%d {" % self.id)
        out.append("    #![allow(unused, non_camel_case_types)]")
        out.append("    use crate::drv::*;")
        out.append("    use crate::{act, act_ns, actf, actf_ns};")
        out.append("    lexgen::lexer! {")
        if derive_clone:
            out.append("    #[derive(Clone)]")
        out.append("    pub %s(St) -> Tok;" % name)
        out.append("    type Error = UErr;")
        out.append(self.body(redundant))
        out.append("    }")
        if self.named:
            arms = " ".join("%d => %sRule::%s," % (i, name, s[0]) for i, s in enumerate(self.sets))
            out.append("    fn sw(i: i32) -> %sRule { match i { %s _ => unreachable!() } }" % (name, arms))
        out.append("    impl<'input, I: Iterator<Item = char> + Clone> Lx for %s<'input, I> {" % name)
        out.append("        fn user_state(&mut self) -> St { self.0.state().clone() }")
        out.append("        fn regs(&self) -> (usize, usize, bool) { (self.0.__state, self.0.__initial_state, self.0.__done) }")
        out.append("    }")
        out.append("    pub fn run(req: &Req) {")
        out.append("        match req.ctor {")
        out.append("            0 => drive(%s::new(&req.text), req)," % name)
        out.append("            1 => drive(%s::new_with_state(&req.text, St::default()), req)," % name)
        out.append("            2 => drive(%s::new_from_iter(VecIter::new(req.chars.clone())), req)," % name)
        out.append("            _ => drive(%s::new_from_iter_with_state(VecIter::new(req.chars.clone()), St::default()), req)," % name)
        out.append("        }")
        out.append("    }")
        out.append("}")
        return "\n".join(out)


def generated_rs(programs, **kw):
    parts = [p.to_rust_module(**kw) for p in programs]
    reg = ", ".join("(%d, p%d::run as fn(&crate::drv::Req))" % (p.id, p.id) for p in programs)
    parts.append("pub fn registry() -> Vec<(i64, fn(&crate::drv::Req))> { vec![%s] }" % reg)
    return "\n\n".join(parts) + "\n"

# ---------------------------------------------------------------------------------------------
# Random regexes and families
# ---------------------------------------------------------------------------------------------

A, B, C, X = 97, 98, 99, 120


class Gen:
    def __init__(self, seed, letters=(A, B, C), other=(X,)):
        self.rnd = random.Random(seed)
        self.letters = list(letters)
        self.other = list(other)

    def letter(self):
        return self.rnd.choice(self.letters)

    def atom(self, allow_any=True, allow_cls=True):
        r = self.rnd.random()
        if r < 0.45:
            return chr_(self.letter())
        if r < 0.60:
            n = self.rnd.choice([2, 2, 3, 4])
            return str_([self.letter() for _ in range(n)])
        if r < 0.80 and allow_cls:
            return self.cls()
        if r < 0.88 and allow_any:
            return any_()
        if r < 0.94 and allow_cls:
            return self.diffcls()
        return chr_(self.letter())

    def cls(self):
        ls = sorted(self.letters)
        r = self.rnd.random()
        if r < 0.4:
            i = self.rnd.randrange(len(ls) - 1)
            j = self.rnd.randrange(i + 1, len(ls))
            return set_([(ls[i], ls[j])])
        if r < 0.7:
            cs = self.rnd.sample(ls, 2)
            return set_([(c, c) for c in cs])
        i = self.rnd.randrange(len(ls) - 1)
        c = self.rnd.choice(ls)
        return set_([(ls[i], ls[i + 1]), (c, c)])

    def diffcls(self):
        r = self.rnd.random()
        if r < 0.5:
            return diff(any_(), chr_(self.letter()))
        ls = sorted(self.letters)
        return diff(set_([(ls[0], ls[-1])]), chr_(self.rnd.choice(ls)))

    def regex(self, depth):
        if depth <= 0 or self.rnd.random() < 0.25:
            return self.atom()
        r = self.rnd.random()
        if r < 0.40:
            return cat(self.regex(depth - 1), self.regex(depth - 1))
        if r < 0.60:
            return alt(self.regex(depth - 1), self.regex(depth - 1))
        if r < 0.74:
            return star(self.regex(depth - 1))
        if r < 0.88:
            return plus(self.regex(depth - 1))
        return opt(self.regex(depth - 1))

    def rule_regex(self, depth, env=None):
        env = env or {}
        for _ in range(50):
            re = self.regex(depth)
            if nullable(re, env):
                re = cat(self.atom(), re) if self.rnd.random() < 0.5 else cat(re, self.atom())
            if not nullable(re, env) and classes_ok(re, env):
                return re
        return chr_(self.letter())

    def with_eoi(self, re):
        """A `$`-tailed variant of re."""
        r = self.rnd.random()
        if r < 0.5:
            return cat(re, eoi())
        if r < 0.7:
            return cat(re, opt(eoi()))
        if r < 0.85:
            return alt(re, cat(self.rule_regex(1), eoi()))
        return cat(re, alt(eoi(), self.atom()))

    def ctx_regex(self, depth):
        r = self.rnd.random()
        if r < 0.15:
            return eoi()
        re = self.regex(depth)
        if not classes_ok(re, {}):
            re = self.atom()
        if r < 0.30:
            return cat(re, eoi()) if not nullable(re, {}) or True else re
        if r < 0.40:
            return alt(re, eoi())
        return re
